#!/bin/bash
# seedreverify.sh <k> <n>  (SEEDS="id id ..." restricts the list) - re-runs the detecting check(s) of every k-th (mod n) stored seeded change
# against a scratch worktree of /repo (VERIF_REPO_OVERRIDE; /repo itself is not touched), using the
# harness under ${VERIF_ROOT:-/verif}.  Result: seeded/<id>/reverify.txt in /verif and a line on stdout.
k=$1; n=$2
root=${VERIF_ROOT:-/verif}
export GOFLAGS=-mod=mod GOPROXY=off GOSUMDB=off GOTOOLCHAIN=local
i=0
for sid in ${SEEDS:-$(ls /verif/seeded)}; do
  i=$((i+1)); [ $((i % n)) -eq $k ] || continue
  d=/verif/seeded/$sid
  checks=$(python3 -c "
import json,re
m=json.load(open('$d/meta.json'))
ids=[]
for s in m['detected_by']:
    ids+=re.findall(r'C\d\d', s)
print(' '.join(dict.fromkeys(ids)))" 2>/dev/null)
  [ -z "$checks" ] && { echo "$sid -> (not claimed)"; continue; }
  wt=$(mktemp -d /tmp/reverify-XXXXXX); rmdir $wt
  git -C /repo worktree add -q --detach $wt HEAD || continue
  if ! git -C $wt apply $d/patch.diff 2>/dev/null; then echo "$sid -> PATCH DOES NOT APPLY"; git -C /repo worktree remove --force $wt; continue; fi
  res=""
  for c in $checks; do
    out=$(cd $root && VERIF_REPO_OVERRIDE=$wt VERIF_NOEVID=1 ./check $c quick 2>&1)
    rc=$?
    v=$(echo "$out" | grep -c "^VIOLATION")
    res="$res $c:exit=$rc,violations=$v"
    [ $v -gt 0 ] && break   # one detecting check is enough
  done
  git -C /repo worktree remove --force $wt 2>/dev/null; rm -rf $wt
  echo "$sid ->$res" | tee $d/reverify.txt
done
