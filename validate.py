#!/usr/bin/env python3
"""validate MANIFEST.json and every evidence file against the schemas (needs python3-vt with jsonschema)"""
import json, sys, glob, jsonschema
ok = True
m = json.load(open('/verif/MANIFEST.json'))
jsonschema.validate(m, json.load(open('/root/.vp/MANIFEST.schema.json')))
es = json.load(open('/root/.vp/EVIDENCE.schema.json'))
for c in m['checks']:
    try:
        jsonschema.validate(json.load(open(c['evidence_file'])), es)
    except Exception as e:
        ok = False
        print('BAD', c['evidence_file'], str(e)[:300])
props = [json.loads(l)['id'] for l in open('/verif/properties.jsonl')]
claimed = {c['property_id'] for c in m['checks']}
na = {n['property_id'] for n in m.get('not_applicable', [])}
for p in props:
    if p not in claimed and p not in na:
        print('UNACCOUNTED', p)
print('ok' if ok else 'FAILED')
