// C16 — existing files are never clobbered; reading never modifies the index.
package c16

import (
	"crypto/sha256"
	"database/sql"
	"fmt"
	"os"
	"path/filepath"
	"runtime"
	"strings"
	"sync"
	"syscall"
	"testing"

	"github.com/akrennmair/updog"
	_ "github.com/akrennmair/updog/driver"
	"github.com/akrennmair/updog/internal/queryparser"
	pb "github.com/akrennmair/updog/proto/updog/v1"
	"github.com/akrennmair/updog/verifharness/evid"
	"github.com/akrennmair/updog/verifharness/fix"
	"github.com/akrennmair/updog/verifharness/gen"
	"github.com/akrennmair/updog/verifharness/model"
	"go.etcd.io/bbolt"
	"pgregory.net/rapid"
)

const prop = "C16"

func TestMain(m *testing.M) { fix.Main(m) }

// Pre-existing content kinds.
const (
	PZero = iota
	PRandom
	PIndex
	PBoltOther
	PReadOnlyIndex
	PSymlinkToFile   // the path is a symlink to an existing file with random bytes
	PDanglingSymlink // the path exists as a directory entry, its target does not
	PDirectory
	PBoltDataNoSchema // a bbolt database with a bucket named "data" but without the schema key: what an interrupted writer, or somebody else's application, leaves
	nPre
)

var preName = []string{"0-bytes", "random-bytes", "valid-index", "bbolt-non-index", "read-only valid-index", "symlink-to-file", "dangling-symlink", "directory", "bbolt-with-data-bucket-but-no-schema"}

type ClobberCase struct {
	// FDExhaust: the process has no free file descriptor while Flush runs
	// (resource fault: the open fails for another reason than "exists").
	FDExhaust bool
	Pre       int
	Random    []byte
	PreData   gen.DataSpec // for PIndex
	Data      gen.DataSpec // what the writer holds
}

func (c *ClobberCase) Summary() string {
	return fmt.Sprintf("existing=%s(%d random bytes) fd-exhausted-during-flush=%v writer holds %s", preName[c.Pre], len(c.Random), c.FDExhaust, c.Data.Summary())
}

// digest describes what is at path without following a final symlink: link
// target text (and the target's content if it exists), directory listing, or
// content hash + size + mode of a regular file.
func digest(path string) (string, error) {
	st, err := os.Lstat(path)
	if err != nil {
		return "", err
	}
	if st.Mode()&os.ModeSymlink != 0 {
		tgt, _ := os.Readlink(path)
		b, rerr := os.ReadFile(path)
		if rerr != nil {
			return fmt.Sprintf("symlink->%s (dangling)", tgt), nil
		}
		return fmt.Sprintf("symlink->%s %x/%d", tgt, sha256.Sum256(b), len(b)), nil
	}
	if st.IsDir() {
		ents, _ := os.ReadDir(path)
		return fmt.Sprintf("dir with %d entries", len(ents)), nil
	}
	b, err := os.ReadFile(path)
	if err != nil {
		return "", err
	}
	return fmt.Sprintf("%x/%d/%v", sha256.Sum256(b), len(b), st.Mode().Perm()), nil
}

func clobberOracle(c *ClobberCase) error {
	dir := fix.CaseDir()
	defer os.RemoveAll(dir)
	path := fix.TempPath(dir, "existing") + ".updog"
	switch c.Pre {
	case PZero:
		os.WriteFile(path, nil, 0o644)
	case PRandom:
		os.WriteFile(path, c.Random, 0o644)
	case PIndex, PReadOnlyIndex:
		if _, err := fix.BuildAt(path, c.PreData.Rows(), fix.WMemFile); err != nil {
			return fmt.Errorf("INFRA: %v", err)
		}
		if c.Pre == PReadOnlyIndex {
			os.Chmod(path, 0o444)
		}
	case PSymlinkToFile:
		target := path + ".target"
		os.WriteFile(target, c.Random, 0o644)
		if err := os.Symlink(target, path); err != nil {
			return fmt.Errorf("INFRA: %v", err)
		}
	case PDanglingSymlink:
		if err := os.Symlink(path+".nowhere", path); err != nil {
			return fmt.Errorf("INFRA: %v", err)
		}
	case PDirectory:
		if err := os.Mkdir(path, 0o755); err != nil {
			return fmt.Errorf("INFRA: %v", err)
		}
	case PBoltDataNoSchema:
		db, err := bbolt.Open(path, 0o644, nil)
		if err != nil {
			return fmt.Errorf("INFRA: %v", err)
		}
		db.Update(func(tx *bbolt.Tx) error {
			b, _ := tx.CreateBucket([]byte("data"))
			if len(c.Random)%2 == 0 {
				b.Put([]byte("Vsomebody"), c.Random)
				b.Put([]byte("I"), []byte{0, 0, 0, 9})
			}
			return b.Put([]byte("k"), c.Random)
		})
		db.Close()
	case PBoltOther:
		db, err := bbolt.Open(path, 0o644, nil)
		if err != nil {
			return fmt.Errorf("INFRA: %v", err)
		}
		db.Update(func(tx *bbolt.Tx) error {
			b, _ := tx.CreateBucket([]byte("something"))
			return b.Put([]byte("k"), c.Random)
		})
		db.Close()
	}
	before, err := digest(path)
	if err != nil {
		return fmt.Errorf("INFRA: %v", err)
	}
	w := updog.NewIndexWriter(path)
	for _, r := range c.Data.Rows() {
		if _, err := w.AddRow(r); err != nil {
			return fmt.Errorf("AddRow: %v", err)
		}
	}
	var ferr error
	if c.FDExhaust {
		ferr = withoutFreeFDs(func() error { return fix.Safe(w.Flush) })
	} else {
		ferr = fix.Safe(w.Flush)
	}
	if fix.IsPanic(ferr) {
		return ferr
	}
	after, derr := digest(path)
	if derr != nil {
		return fmt.Errorf("existing file vanished after Flush: %v", derr)
	}
	if ferr == nil {
		return fmt.Errorf("Flush onto an existing %s file returned no error", preName[c.Pre])
	}
	if before != after {
		return fmt.Errorf("Flush failed (%v) but changed the existing file: %s -> %s", ferr, before, after)
	}
	// a second attempt behaves the same
	if err := fix.Safe(w.Flush); err == nil {
		return fmt.Errorf("second Flush onto the existing file returned no error")
	}
	if again, _ := digest(path); again != before {
		return fmt.Errorf("second Flush changed the existing file")
	}
	return nil
}

// withoutFreeFDs runs f while the process cannot open any further file: the
// soft RLIMIT_NOFILE is lowered and the remaining descriptors are used up.
func withoutFreeFDs(f func() error) error {
	var old syscall.Rlimit
	if err := syscall.Getrlimit(syscall.RLIMIT_NOFILE, &old); err != nil {
		return f()
	}
	low := old
	low.Cur = 128
	if low.Cur > old.Max {
		low.Cur = old.Max
	}
	syscall.Setrlimit(syscall.RLIMIT_NOFILE, &low)
	var hold []*os.File
	for {
		fh, err := os.Open("/dev/null")
		if err != nil {
			break
		}
		hold = append(hold, fh)
		if len(hold) > 100000 {
			break
		}
	}
	err := f()
	for _, fh := range hold {
		fh.Close()
	}
	syscall.Setrlimit(syscall.RLIMIT_NOFILE, &old)
	return err
}

// ---------------------------------------------------------------- a failed Flush, then another one

// RetryCase: the first Flush of a writer fails half-way for a reason of the
// operating system (file size limit: bbolt's writes get EFBIG).  Whatever is
// at the path when Flush is called again - what the failed attempt left, or a
// file somebody else put there in between - is an existing file: Flush must
// fail and leave it unchanged.  Only if nothing is there may it succeed, and
// then the index must be complete.
type RetryCase struct {
	Data    gen.DataSpec
	Limit   int // RLIMIT_FSIZE during the first attempt, bytes
	Between int // 0 nothing, 1 replace by another complete index, 2 replace by random bytes, 3 remove
	Random  []byte
	// AddMore rows are added between the two Flush calls
	AddMore int
}

func (c *RetryCase) Summary() string {
	lim := fmt.Sprintf("under a file size limit of %d bytes", c.Limit)
	if c.Limit < 0 {
		lim = "without any limit (it succeeds)"
	}
	return fmt.Sprintf("first Flush %s, %d more rows added, then %s, then Flush again; writer holds %s", lim, c.AddMore, []string{"nothing happens", "another complete index is put at the path", "random bytes are put at the path", "the path is removed"}[c.Between], c.Data.Summary())
}

func withFileSizeLimit(limit int, f func() error) error {
	var old syscall.Rlimit
	const rlimitFsize = 1
	if err := syscall.Getrlimit(rlimitFsize, &old); err != nil {
		return f()
	}
	low := old
	low.Cur = uint64(limit)
	if err := syscall.Setrlimit(rlimitFsize, &low); err != nil {
		return f()
	}
	defer syscall.Setrlimit(rlimitFsize, &old)
	return f()
}

func retryOracle(c *RetryCase) (firstFailed bool, err error) {
	dir := fix.CaseDir()
	defer os.RemoveAll(dir)
	path := fix.TempPath(dir, "retry") + ".updog"
	// somebody else's complete index, written in its own directory before
	// anything can have gone wrong, and copied to the path later
	fdir := filepath.Join(dir, "foreign")
	os.MkdirAll(fdir, 0o755)
	if _, err := fix.BuildAt(filepath.Join(fdir, "x.updog"), []model.Row{{"somebody": "else"}, {"somebody": "else", "x": "y"}}, fix.WMemFile); err != nil {
		return false, fmt.Errorf("INFRA: %v", err)
	}
	foreign, err := os.ReadFile(filepath.Join(fdir, "x.updog"))
	if err != nil {
		return false, fmt.Errorf("INFRA: %v", err)
	}
	rows := c.Data.Rows()
	w := updog.NewIndexWriter(path)
	for _, r := range rows {
		if _, err := w.AddRow(r); err != nil {
			return false, fmt.Errorf("AddRow: %v", err)
		}
	}
	var ferr error
	if c.Limit < 0 {
		ferr = fix.Safe(w.Flush)
	} else {
		ferr = withFileSizeLimit(c.Limit, func() error { return fix.Safe(w.Flush) })
	}
	if fix.IsPanic(ferr) {
		return false, fmt.Errorf("first Flush (file size limit %d): %v", c.Limit, ferr)
	}
	firstFailed = ferr != nil
	// whether the first Flush failed half-way or succeeded: from here on
	// something is (or may be) at the path, and the writer is used again
	for i := 0; i < c.AddMore; i++ {
		r := model.Row{"late": fmt.Sprintf("row-%d", i)}
		if _, err := w.AddRow(r); err != nil {
			return firstFailed, fmt.Errorf("AddRow after Flush: %v", err)
		}
		rows = append(rows, r)
	}
	switch c.Between {
	case 1:
		os.Remove(path)
		if err := os.WriteFile(path, foreign, 0o644); err != nil {
			return firstFailed, fmt.Errorf("INFRA: %v", err)
		}
	case 2:
		os.Remove(path)
		os.WriteFile(path, c.Random, 0o644)
	case 3:
		os.Remove(path)
	}
	before, derr := digest(path)
	exists := derr == nil
	serr := fix.Safe(w.Flush)
	if fix.IsPanic(serr) {
		return firstFailed, fmt.Errorf("second Flush: %v", serr)
	}
	if exists {
		if serr == nil {
			return firstFailed, fmt.Errorf("the first Flush returned %v; the second Flush found an existing file at the path and returned no error", ferr)
		}
		after, derr := digest(path)
		if derr != nil {
			return firstFailed, fmt.Errorf("the second Flush failed (%v) but removed the existing file", serr)
		}
		if after != before {
			return firstFailed, fmt.Errorf("the second Flush failed (%v) but changed the existing file: %s -> %s", serr, before, after)
		}
		return firstFailed, nil
	}
	if serr != nil {
		return firstFailed, nil // nothing was there and it still fails: allowed
	}
	d := model.NewData(rows)
	idx, _, oerr := fix.Open(path, fix.OpenCfg{CacheCap: -1})
	if oerr != nil {
		return firstFailed, fmt.Errorf("the second Flush (nothing at the path) returned no error, but its output does not open: %v", oerr)
	}
	defer fix.Safe(idx.Close)
	if perr := fix.ProbeAll(idx, d, fix.ProbeOpts{MaxRows: 300, MaxValues: 600}); perr != nil {
		return firstFailed, fmt.Errorf("the second Flush (nothing at the path) returned no error, but its output is not the writer's content: %v", perr)
	}
	return firstFailed, nil
}

func runRetry(t interface{ Fatalf(string, ...any) }, c *RetryCase) {
	defer fix.Track(prop, "retry", c, c.Summary())()
	failed, err := retryOracle(c)
	cl := []string{"retry"}
	if failed {
		cl = append(cl, "first-flush-failed-on-file-size-limit")
	}
	evid.Case(failed || c.Limit < 0, c.Summary(), cl...)
	if err != nil && strings.HasPrefix(err.Error(), "INFRA:") {
		panic(err.Error())
	}
	if err != nil {
		fix.Fail(t, prop, "retry", c, c.Summary(), err)
	}
}

func drawRetry(t *rapid.T) *RetryCase {
	c := &RetryCase{Limit: rapid.SampledFrom([]int{-1, -1, -1, 0, 4096, 8192, 16384, 20000, 32768, 40000, 70000}).Draw(t, "limit"), Between: rapid.IntRange(0, 3).Draw(t, "between")}
	c.AddMore = rapid.SampledFrom([]int{0, 0, 1, 3, 1200}).Draw(t, "addmore")
	c.Random = rapid.SliceOfN(rapid.Byte(), 1, 3000).Draw(t, "random")
	c.Data = *gen.Dataset(t, gen.DataOpts{MaxRows: 20, MaxRecipeN: 2500, RecipeProb: 40})
	return c
}

// ---------------------------------------------------------------- concurrent creation

// RaceCase: several writers with different contents Flush to one path at the
// same time.  Exactly one may create the file; every other Flush finds the
// path existing and must fail without touching it.
type RaceCase struct {
	Writers int
	Rows    int
}

func (c *RaceCase) Summary() string {
	return fmt.Sprintf("%d writers (writer g holds %d+g rows tagged g) Flush to the same fresh path concurrently", c.Writers, c.Rows)
}

func raceOracle(c *RaceCase) error {
	dir := fix.CaseDir()
	defer os.RemoveAll(dir)
	for attempt := 0; attempt < 20; attempt++ {
		path := fix.TempPath(dir, "contended") + ".updog"
		ws := make([]*updog.IndexWriter, c.Writers)
		datas := make([][]model.Row, c.Writers)
		for g := range ws {
			ws[g] = updog.NewIndexWriter(path)
			for i := 0; i < c.Rows+g; i++ {
				r := model.Row{"w": fmt.Sprintf("writer%d", g), "i": fmt.Sprint(i % 3)}
				datas[g] = append(datas[g], r)
				ws[g].AddRow(r)
			}
		}
		start := make(chan struct{})
		errs := make([]error, c.Writers)
		var wg sync.WaitGroup
		for g := range ws {
			wg.Add(1)
			go func(g int) {
				defer wg.Done()
				<-start
				errs[g] = fix.Safe(ws[g].Flush)
			}(g)
		}
		close(start)
		wg.Wait()
		winners := []int{}
		for g, e := range errs {
			if fix.IsPanic(e) {
				return e
			}
			if e == nil {
				winners = append(winners, g)
			}
		}
		if len(winners) != 1 {
			return fmt.Errorf("attempt %d: %d of %d concurrent Flush calls to one path succeeded (writers %v); exactly one can have created the file, the others found it existing", attempt, len(winners), c.Writers, winners)
		}
		idx, _, err := fix.Open(path, fix.OpenCfg{CacheCap: -1})
		if err != nil {
			return fmt.Errorf("attempt %d: the file created by writer %d does not open: %v", attempt, winners[0], err)
		}
		perr := fix.ProbeAll(idx, model.NewData(datas[winners[0]]), fix.ProbeOpts{})
		fix.Safe(idx.Close)
		if perr != nil {
			return fmt.Errorf("attempt %d: the file is not the index of the one successful writer %d (a failed Flush touched it): %v", attempt, winners[0], perr)
		}
	}
	return nil
}

// ---------------------------------------------------------------- read side

type Q struct {
	Expr    model.Expr
	GroupBy []string
	Schema  bool
}

type ReadCase struct {
	Data    gen.DataSpec
	Writer  int
	Opens   []fix.OpenCfg // one read session per entry
	Driver  []bool        // session i goes through database/sql
	Queries [][]Q
}

func (c *ReadCase) Summary() string {
	var b strings.Builder
	fmt.Fprintf(&b, "%s writer=%s sessions[%d]:", c.Data.Summary(), fix.WriterName[c.Writer], len(c.Opens))
	for i := range c.Opens {
		fmt.Fprintf(&b, " {%s driver=%v queries=%d}", c.Opens[i], c.Driver[i], len(c.Queries[i]))
	}
	return b.String()
}

func dsn(path string, oc fix.OpenCfg) string {
	var opts []string
	if oc.Preload {
		opts = append(opts, "preload=true")
	}
	if oc.CacheCap >= 0 {
		opts = append(opts, "lrucache=true", fmt.Sprintf("lrucachesize=%d", oc.CacheCap))
	}
	s := "file:" + path
	if len(opts) > 0 {
		s += "?" + strings.Join(opts, "&")
	}
	return s
}

func readOracle(c *ReadCase) error {
	dir := fix.CaseDir()
	defer os.RemoveAll(dir)
	rows := c.Data.Rows()
	d := model.NewData(rows)
	path, _, err := fix.Build(dir, rows, c.Writer)
	if err != nil {
		return fmt.Errorf("INFRA: build: %v", err)
	}
	before, err := digest(path)
	if err != nil {
		return err
	}
	for i, oc := range c.Opens {
		if c.Driver[i] {
			// a private copy of the path name per session would defeat the purpose:
			// the driver must read THIS file.  Each DSN (path+options) is used by one
			// sql.DB only and closed before the next session starts.
			err := fix.Safe(func() error {
				db, err := sql.Open("updog", dsn(path, oc))
				if err != nil {
					return err
				}
				defer db.Close()
				db.SetMaxOpenConns(1)
				for _, q := range c.Queries[i] {
					if q.Schema {
						continue
					}
					text := queryparser.QueryToString(&pb.Query{Expr: fix.ToPB(q.Expr), GroupBy: q.GroupBy})
					r, err := db.Query(text)
					if err != nil {
						if d.Rejects(q.Expr, q.GroupBy) {
							continue
						}
						return fmt.Errorf("driver query %q: %v", text, err)
					}
					for r.Next() {
					}
					r.Close()
				}
				return nil
			})
			if err != nil {
				return fmt.Errorf("session %d (driver): %v", i, err)
			}
		} else {
			idx, _, err := fix.Open(path, oc)
			if err != nil {
				return fmt.Errorf("session %d: open: %v", i, err)
			}
			for _, q := range c.Queries[i] {
				if q.Schema {
					if err := fix.CheckSchema(idx, d); err != nil {
						return err
					}
					continue
				}
				if err := fix.CheckQuery(idx, d, q.Expr, q.GroupBy); err != nil {
					fix.Safe(idx.Close)
					return fmt.Errorf("session %d query %s: %v", i, q.Expr.String(), err)
				}
			}
			if err := fix.Safe(idx.Close); err != nil {
				return fmt.Errorf("session %d: close: %v", i, err)
			}
		}
		after, err := digest(path)
		if err != nil {
			return err
		}
		if after != before {
			return fmt.Errorf("session %d (%s, driver=%v) modified the index file: %s -> %s", i, oc, c.Driver[i], before, after)
		}
	}
	return nil
}

func runClobber(t interface{ Fatalf(string, ...any) }, c *ClobberCase) {
	defer fix.Track(prop, "clobber", c, c.Summary())()
	nt := c.Pre != PZero
	evid.Case(nt, c.Summary(), "clobber", "existing:"+preName[c.Pre])
	err := clobberOracle(c)
	if err != nil && strings.HasPrefix(err.Error(), "INFRA:") {
		panic(err.Error())
	}
	if err != nil {
		fix.Fail(t, prop, "clobber", c, c.Summary(), err)
	}
}

func runRead(t interface{ Fatalf(string, ...any) }, c *ReadCase) {
	defer fix.Track(prop, "read", c, c.Summary())()
	nq, gb, drv := 0, false, false
	for i, qs := range c.Queries {
		nq += len(qs)
		for _, q := range qs {
			if len(q.GroupBy) > 0 {
				gb = true
			}
		}
		if c.Driver[i] {
			drv = true
		}
	}
	cl := []string{"read"}
	if drv {
		cl = append(cl, "read-via-driver")
	}
	evid.Case(nq >= 3 && gb, c.Summary(), cl...)
	err := readOracle(c)
	if err != nil && strings.HasPrefix(err.Error(), "INFRA:") {
		panic(err.Error())
	}
	if err != nil {
		fix.Fail(t, prop, "read", c, c.Summary(), err)
	}
}

func drawRace(t *rapid.T) *RaceCase {
	return &RaceCase{Writers: rapid.IntRange(2, 12).Draw(t, "writers"), Rows: rapid.SampledFrom([]int{0, 1, 5, 200, 1200}).Draw(t, "rows")}
}

func runRace(t interface{ Fatalf(string, ...any) }, c *RaceCase) {
	evid.Case(true, c.Summary(), "concurrent-flush-one-path")
	if err := raceOracle(c); err != nil {
		fix.Fail(t, prop, "race", c, c.Summary(), err)
	}
}

func drawClobber(t *rapid.T) *ClobberCase {
	c := &ClobberCase{Pre: rapid.IntRange(0, nPre-1).Draw(t, "pre"), FDExhaust: rapid.IntRange(0, 5).Draw(t, "fdexhaust") == 0}
	c.Random = rapid.SliceOfN(rapid.Byte(), 1, 5000).Draw(t, "random")
	if rapid.IntRange(0, 3).Draw(t, "magic") == 0 {
		// random bytes that start like a bbolt file of some page size
		c.Random = append(make([]byte, 16), append([]byte{0xED, 0xDA, 0x0C, 0xED, 2, 0, 0, 0, 0, 0x10, 0, 0}, c.Random...)...)
	}
	c.PreData = *gen.Explicit(t, gen.DataOpts{MaxRows: 10})
	c.Data = *gen.Dataset(t, gen.DataOpts{MaxRows: 20, MaxRecipeN: 2500, RecipeProb: 20})
	return c
}

func drawRead(t *rapid.T) *ReadCase {
	c := &ReadCase{}
	c.Data = *gen.Dataset(t, gen.DataOpts{MaxRows: 30, IdentCols: true, MaxRecipeN: 5000, RecipeProb: 20})
	gen.UTF8Spec(&c.Data)
	c.Writer = rapid.IntRange(0, fix.NWriters-1).Draw(t, "writer")
	d := model.NewData(c.Data.Rows())
	pool := gen.NewLeafPool(d)
	ns := rapid.IntRange(1, 3).Draw(t, "nsessions")
	usedDSN := map[string]bool{}
	for i := 0; i < ns; i++ {
		oc := fix.OpenCfg{Preload: rapid.Bool().Draw(t, "preload"), CacheCap: rapid.SampledFrom([]int64{-1, -1, 0, 1000, 1 << 22}).Draw(t, "cap")}
		if rapid.IntRange(0, 3).Draw(t, "alias") == 0 {
			oc.Via = rapid.IntRange(1, fix.NVia-1).Draw(t, "via")
		}
		drv := rapid.Bool().Draw(t, "driver")
		if drv && usedDSN[oc.String()] {
			drv = false // one sql.DB per DSN per case (re-opening a DSN is C17's subject)
		}
		if drv {
			usedDSN[oc.String()] = true
		}
		c.Opens = append(c.Opens, oc)
		c.Driver = append(c.Driver, drv)
		var qs []Q
		k := rapid.IntRange(1, 8).Draw(t, "nq")
		for j := 0; j < k; j++ {
			if rapid.IntRange(0, 5).Draw(t, "schema") == 0 {
				qs = append(qs, Q{Schema: true})
				continue
			}
			q := Q{Expr: gen.UTF8Expr(pool.Expr(t, gen.ExprOpts{MaxDepth: 4}))}
			if rapid.Bool().Draw(t, "gb") {
				q.GroupBy = pool.GroupBy(t, 2, 0)
				if c.Data.Recipe != nil && len(q.GroupBy) > 1 {
					q.GroupBy = q.GroupBy[:1]
				}
			}
			qs = append(qs, q)
		}
		c.Queries = append(c.Queries, qs)
	}
	return c
}

func replay(cf *evid.CaseFile) error {
	if cf.Sub == "race" {
		var c RaceCase
		if err := evid.Decode(cf.Gob, &c); err != nil {
			return err
		}
		return raceOracle(&c)
	}
	if cf.Sub == "flood" {
		return fmt.Errorf("a failure of the refuse flood is reproduced by ./check C16 quick")
	}
	if cf.Sub == "retry" {
		var c RetryCase
		if err := evid.Decode(cf.Gob, &c); err != nil {
			return err
		}
		_, err := retryOracle(&c)
		return err
	}
	if cf.Sub == "clobber" {
		var c ClobberCase
		if err := evid.Decode(cf.Gob, &c); err != nil {
			return err
		}
		return clobberOracle(&c)
	}
	var c ReadCase
	if err := evid.Decode(cf.Gob, &c); err != nil {
		return err
	}
	return readOracle(&c)
}

// refuseFlood: thousands of Flush calls that must be refused (the path
// exists).  Refusing must not cost anything that is not given back.
func refuseFlood(t *testing.T, n int) {
	dir := fix.CaseDir()
	defer os.RemoveAll(dir)
	path := filepath.Join(dir, "exists.updog")
	if _, err := fix.BuildAt(path, []model.Row{{"a": "1"}}, fix.WMemFile); err != nil {
		panic("INFRA: " + err.Error())
	}
	before, _ := digest(path)
	w := updog.NewIndexWriter(path)
	w.AddRow(map[string]string{"x": "y"})
	fix.Safe(w.Flush)
	runtime.GC()
	fd0, g0 := fix.FDCount(0), runtime.NumGoroutine()
	refused := 0
	gcOn := fix.NoGC()
	for i := 0; i < n; i++ {
		ww := w
		if i%3 == 0 {
			ww = updog.NewIndexWriter(path)
			ww.AddRow(map[string]string{"x": fmt.Sprint(i)})
		}
		if err := fix.Safe(ww.Flush); err != nil {
			refused++
		}
	}
	fd1 := fix.FDCount(0) // before any collection: finalizers would close what was left open
	gcOn()
	runtime.GC()
	g1 := runtime.NumGoroutine()
	after, _ := digest(path)
	c := &ClobberCase{Pre: PIndex, Random: []byte{1}}
	evid.Case(true, fmt.Sprintf("refuse flood: %d Flush calls onto an existing index, %d refused; descriptors %d -> %d, goroutines %d -> %d", n, refused, fd0, fd1, g0, g1), "refuse-flood")
	switch {
	case refused != n:
		fix.Fail(t, prop, "flood", c, "refuse flood", fmt.Errorf("%d of %d Flush calls onto an existing file returned no error", n-refused, n))
	case after != before:
		fix.Fail(t, prop, "flood", c, "refuse flood", fmt.Errorf("the existing file changed during %d refused Flush calls: %s -> %s", n, before, after))
	case fd0 >= 0 && fd1 > fd0+8:
		fix.Fail(t, prop, "flood", c, "refuse flood", fmt.Errorf("after %d refused Flush calls the process holds %d open descriptors, %d before", n, fd1, fd0))
	case g1 > g0+8:
		fix.Fail(t, prop, "flood", c, "refuse flood", fmt.Errorf("after %d refused Flush calls the process has %d goroutines, %d before", n, g1, g0))
	}
}

func TestQuick(t *testing.T) {
	fix.Pinned(t, prop, replay)
	refuseFlood(t, 3000)
	fix.Check(t, "clobber", 300, func(rt *rapid.T) { runClobber(rt, drawClobber(rt)) })
	fix.Check(t, "retry", 120, func(rt *rapid.T) { runRetry(rt, drawRetry(rt)) })
	fix.Check(t, "read", 300, func(rt *rapid.T) { runRead(rt, drawRead(rt)) })
	fix.Check(t, "race", 15, func(rt *rapid.T) { runRace(rt, drawRace(rt)) })
}

func TestThorough(t *testing.T) {
	if shard, _ := evid.Shard(); shard == 0 {
		fix.Pinned(t, prop, replay)
	}
	fix.Check(t, "clobber", 10000, func(rt *rapid.T) { runClobber(rt, drawClobber(rt)) })
	fix.Check(t, "retry", 2000, func(rt *rapid.T) { runRetry(rt, drawRetry(rt)) })
	fix.Check(t, "read", 10000, func(rt *rapid.T) { runRead(rt, drawRead(rt)) })
	fix.Check(t, "race", 300, func(rt *rapid.T) { runRace(rt, drawRace(rt)) })
}

func TestReplay(t *testing.T) {
	cf := fix.ReplayFile(t)
	if err := replay(cf); err != nil {
		t.Fatalf("replay of %s/%s fails: %v", cf.Property, cf.Sub, err)
	}
}
