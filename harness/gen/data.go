// Package gen holds the rapid generators shared by the checks: datasets
// (explicit rows or compact recipes that expand deterministically),
// expressions, group-by lists and hostile strings.
package gen

import (
	"fmt"
	"math/bits"
	"strings"

	"github.com/akrennmair/updog/verifharness/evid"
	"github.com/akrennmair/updog/verifharness/model"
	"pgregory.net/rapid"
)

// Column value distributions of a recipe column.
const (
	KConst  = iota // one value
	KMod           // i mod K         (dense, interleaved)
	KDiv           // i div K         (run-shaped)
	KSparse        // "hit" iff i mod K == R, else "miss"
	KTwo           // (i mod K) for even i, (i div K) for odd i
	KUnique        // one value per row
	KLen           // length sweep: len(name)+len(value) = K + (i/10)%R, siblings differ in their last byte only
	KPow2          // value k holds for the rows 2^k-1 .. 2^(k+1)-2: exactly 2^k rows for every complete block
	kKinds
)

// Presence predicates.
const (
	PAlways  = iota
	PModNot  // i mod P != 0
	PPrefix  // i < P
	PNotLast // i < N-P
	pKinds
)

type ColSpec struct {
	Name   string
	Prefix string
	Kind   int
	K, R   int
	Pres   int
	P      int
}

type Recipe struct {
	N    int
	Cols []ColSpec
}

// DataSpec is the serialisable description of a dataset.
type DataSpec struct {
	Explicit []model.Row
	Recipe   *Recipe
	rows     []model.Row
}

func (c *ColSpec) present(i, n int) bool {
	switch c.Pres {
	case PModNot:
		return c.P <= 1 || i%c.P != 0
	case PPrefix:
		return i < c.P
	case PNotLast:
		return i < n-c.P
	}
	return true
}

func (c *ColSpec) value(i int) string {
	k := c.K
	if k < 1 {
		k = 1
	}
	var x int
	switch c.Kind {
	case KConst:
		x = 0
	case KMod:
		x = i % k
	case KDiv:
		x = i / k
	case KSparse:
		if i%k == c.R%k {
			return c.Prefix + "hit"
		}
		return c.Prefix + "miss"
	case KTwo:
		if i%2 == 0 {
			x = i % k
		} else {
			x = 1000000 + i/k
		}
	case KUnique:
		x = i
	case KPow2:
		x = bits.Len(uint(i+1)) - 1
	case KLen:
		// zero-padded decimal of i so that column name + value have a combined
		// length that sweeps K .. K+R-1 (buffer-size boundaries such as 16, 32,
		// 64, 128, 256 lie inside the windows the generators choose); ten
		// consecutive rows share everything but the last byte
		span := c.R
		if span < 1 {
			span = 1
		}
		want := c.K + (i/10)%span - len(c.Name) - len(c.Prefix)
		d := fmt.Sprintf("%d", i)
		if want > len(d) {
			d = strings.Repeat("0", want-len(d)) + d
		}
		return c.Prefix + d
	}
	return fmt.Sprintf("%s%d", c.Prefix, x)
}

// Rows expands the spec (memoised).
func (s *DataSpec) Rows() []model.Row {
	if s.rows != nil || (s.Recipe == nil && len(s.Explicit) == 0) {
		if s.rows == nil {
			s.rows = []model.Row{}
		}
		return s.rows
	}
	if s.Recipe == nil {
		s.rows = s.Explicit
		return s.rows
	}
	r := s.Recipe
	rows := make([]model.Row, r.N)
	for i := 0; i < r.N; i++ {
		row := make(model.Row, len(r.Cols))
		for ci := range r.Cols {
			c := &r.Cols[ci]
			if c.present(i, r.N) {
				row[c.Name] = c.value(i)
			}
		}
		rows[i] = row
	}
	s.rows = rows
	return rows
}

// UniqueCol returns the name of a unique-per-row, always-present column.
func (s *DataSpec) UniqueCol() string {
	if s.Recipe == nil {
		return ""
	}
	for _, c := range s.Recipe.Cols {
		if c.Kind == KUnique && c.Pres == PAlways {
			return c.Name
		}
	}
	return ""
}

func (s *DataSpec) Summary() string {
	if s.Recipe != nil {
		var b strings.Builder
		fmt.Fprintf(&b, "recipe{n=%d", s.Recipe.N)
		for _, c := range s.Recipe.Cols {
			fmt.Fprintf(&b, " %+q:%s(k=%d,r=%d,pfx=%+q)/%s(p=%d)", c.Name, kindName[c.Kind], c.K, c.R, c.Prefix, presName[c.Pres], c.P)
		}
		b.WriteString("}")
		return b.String()
	}
	var b strings.Builder
	fmt.Fprintf(&b, "rows[%d]{", len(s.Explicit))
	for i, r := range s.Explicit {
		if i >= 12 {
			b.WriteString(" …")
			break
		}
		fmt.Fprintf(&b, " %s", FmtRow(r))
	}
	b.WriteString(" }")
	return b.String()
}

var kindName = []string{"const", "mod", "div", "sparse", "two", "unique", "lensweep", "pow2blocks"}
var presName = []string{"always", "modnot", "prefix", "notlast"}

func FmtRow(r model.Row) string {
	keys := make([]string, 0, len(r))
	for k := range r {
		keys = append(keys, k)
	}
	sortStrings(keys)
	var b strings.Builder
	b.WriteString("{")
	for i, k := range keys {
		if i > 0 {
			b.WriteString(",")
		}
		fmt.Fprintf(&b, "%+q:%+q", k, r[k])
	}
	b.WriteString("}")
	return b.String()
}

func sortStrings(s []string) {
	for i := 1; i < len(s); i++ {
		for j := i; j > 0 && s[j] < s[j-1]; j-- {
			s[j], s[j-1] = s[j-1], s[j]
		}
	}
}

// ---------------------------------------------------------------- strings

var hostile = []string{
	"", " ", "x", "y", "0", "1", "a b", "A", "é", "日本", "\xff", "\xc3", "a\xffb", "\"", "\"\"", "a\"b", "\n", "a\nb", "\r\n",
	"\x00", "a\x00b", "\x00\x00", "'", "\\", ",", ";", "$1", "=", "(", ")", "&", "|", "^", "\t", "💩", "İ", "count", "hit", "miss",
	"a  b", "a\tb", " a b", "a b ", "\ufffd", "M\ufffdnchen", "\xc0\xa2", "x\xc0\xa0y", "\xc1\x81", "\xed\xa0\x80",
	strings.Repeat("z", 300),
	// pairs of invalid UTF-8 strings that become equal when invalid bytes are
	// replaced by U+FFFD; an invalid byte next to a quote; BOM, U+FFFF
	"\xfe", "caf\xc3", "caf\xe2", "\xff\"x", "x\"\xff", "\ufeff", "\ufeffa", "\uffff",
}

// Value draws a value string: mostly from a small alphabet (so equal values
// are frequent), sometimes hostile, sometimes arbitrary bytes.
func Value() *rapid.Generator[string] {
	return rapid.Custom(func(t *rapid.T) string {
		switch rapid.IntRange(0, 9).Draw(t, "vkind") {
		case 0, 1, 2, 3, 4, 5:
			return rapid.SampledFrom([]string{"0", "1", "2", "3", "x", "y", "", "foo", "bar", "1x", "b", "bx"}).Draw(t, "v")
		case 6, 7:
			return rapid.SampledFrom(hostile).Draw(t, "hv")
		case 8:
			return string(rapid.SliceOfN(rapid.Byte(), 0, 12).Draw(t, "bv"))
		default:
			return rapid.StringN(0, 8, 24).Draw(t, "sv")
		}
	})
}

// identCols: identifiers of the query grammar.  The tail holds names that
// look like operators or keywords of other query languages (they are plain
// identifiers here) and underscore forms.
var identCols = []string{"a", "b", "c", "d", "e", "f", "g", "count", "a1", "ab", "and", "or", "not", "AND", "Not", "null", "x_", "x_y"}

var hostileCols = []string{"", " ", "A", "a b", "é", "\xff", "\"", "\n", "count", "a=", "a,b", "$1", "日本", "a\xffb"}

// ColName draws a column name.  NUL bytes are excluded by construction
// (known finding C01-nul-column); the number of replaced draws is counted.
func ColName(identOnly bool) *rapid.Generator[string] {
	return rapid.Custom(func(t *rapid.T) string {
		if identOnly || rapid.IntRange(0, 9).Draw(t, "ckind") < 8 {
			return rapid.SampledFrom(identCols).Draw(t, "c")
		}
		if rapid.Bool().Draw(t, "hc") {
			return rapid.SampledFrom(hostileCols).Draw(t, "hcol")
		}
		s := string(rapid.SliceOfN(rapid.Byte(), 0, 6).Draw(t, "bcol"))
		if strings.IndexByte(s, 0) >= 0 {
			evid.Note("excluded_nul_column_draws", 1)
			s = strings.ReplaceAll(s, "\x00", "N")
		}
		return s
	})
}

// ---------------------------------------------------------------- datasets

type DataOpts struct {
	MaxRows    int  // explicit mode
	IdentCols  bool // only identifier column names (needed when queries go through the text grammar)
	MaxRecipeN int  // 0 = no recipe datasets
	RecipeProb int  // percent
	Unique     bool // recipe: force a unique-per-row column named "u"
}

// Explicit draws a small explicit dataset.
func Explicit(t *rapid.T, o DataOpts) *DataSpec {
	max := o.MaxRows
	if max == 0 {
		max = 40
	}
	ncols := rapid.IntRange(1, 5).Draw(t, "ncols")
	cols := make([]string, 0, ncols)
	seen := map[string]bool{}
	for len(cols) < ncols {
		c := ColName(o.IdentCols).Draw(t, "col")
		if !seen[c] {
			seen[c] = true
			cols = append(cols, c)
		} else if len(seen) >= len(identCols) {
			break
		} else {
			// take the next unused identifier deterministically: construction, not rejection
			for _, ic := range identCols {
				if !seen[ic] {
					seen[ic] = true
					cols = append(cols, ic)
					break
				}
			}
		}
	}
	missPct := rapid.SampledFrom([]int{0, 0, 10, 30, 70}).Draw(t, "missPct")
	n := rapid.IntRange(0, max).Draw(t, "nrows")
	rows := make([]model.Row, 0, n+3)
	for i := 0; i < n; i++ {
		row := model.Row{}
		for _, c := range cols {
			if missPct > 0 && rapid.IntRange(0, 99).Draw(t, "miss") < missPct {
				continue
			}
			row[c] = Value().Draw(t, "val")
		}
		rows = append(rows, row)
	}
	// concatenation collisions: two (column,value) pairs whose plain
	// concatenation is equal, e.g. ("ip","6to4") and ("ip6","to4") - a key or
	// memo built from column+value without a separator confuses them
	if len(cols) > 0 && rapid.IntRange(0, 3).Draw(t, "collide") == 0 {
		base := cols[rapid.IntRange(0, len(cols)-1).Draw(t, "collcol")]
		w := rapid.SampledFrom([]string{"1x", "x1y", "ab", "6to4", "a1", "count", "b0b"}).Draw(t, "collword")
		k := rapid.IntRange(1, len(w)-1).Draw(t, "collsplit")
		n1 := rapid.IntRange(1, 3).Draw(t, "colln1")
		n2 := rapid.IntRange(1, 3).Draw(t, "colln2")
		for i := 0; i < n1; i++ {
			rows = append(rows, model.Row{base: w})
		}
		for i := 0; i < n2; i++ {
			rows = append(rows, model.Row{base + w[:k]: w[k:], base: "other"})
		}
	}
	// a second column holding, row by row, the very same values as an existing
	// one (two columns with the same set of values and the same bitmaps)
	if len(cols) > 0 && len(cols) < 5 && rapid.IntRange(0, 14).Draw(t, "mirrorcol") == 0 {
		src := cols[rapid.IntRange(0, len(cols)-1).Draw(t, "mirrorsrc")]
		dst := src + "2"
		if o.IdentCols {
			dst = "m" + strings.Map(func(r rune) rune {
				if r >= 'a' && r <= 'z' || r >= '0' && r <= '9' {
					return r
				}
				return 'x'
			}, strings.ToLower(src))
		}
		for _, r := range rows {
			if v, ok := r[src]; ok {
				r[dst] = v
			}
		}
	}
	// key-layout twins: the stored key of a pair is hash(column NUL value), the
	// result-cache key of a comparison hash(8-byte length of column, column,
	// value); for the column named "" the bytes of the first for the value
	// seven NULs + v equal the bytes of the second for the value v.  Nobody may
	// keep both kinds of key in one table.
	if !o.IdentCols && rapid.IntRange(0, 29).Draw(t, "keylayout") == 0 {
		v := rapid.SampledFrom([]string{"x", "", "1"}).Draw(t, "klv")
		for i := 0; i < 3; i++ {
			rows = append(rows, model.Row{"": v})
		}
		for i := 0; i < 7; i++ {
			rows = append(rows, model.Row{"": "\x00\x00\x00\x00\x00\x00\x00" + v})
		}
	}
	// length-field wrap twins: a column name longer than 255 / 65,535 bytes, and
	// the pair obtained by cutting the name at its length modulo 2^8 / 2^16 and
	// moving the rest in front of the value - whoever stores the length of a
	// name in too few bits cannot tell them apart
	if rapid.IntRange(0, 39).Draw(t, "longname") == 0 {
		ln := rapid.SampledFrom([]int{300, 65536 + 44, 70000}).Draw(t, "longnamelen")
		mod := 65536
		if ln < 65536 {
			mod = 256
		}
		name := strings.Repeat("x", ln)
		v := rapid.SampledFrom([]string{"v", "", "x"}).Draw(t, "longnameval")
		cut := ln % mod
		n1 := rapid.IntRange(1, 2).Draw(t, "longn1")
		for i := 0; i < n1; i++ {
			rows = append(rows, model.Row{name: v})
		}
		for i := 0; i < n1+1; i++ {
			rows = append(rows, model.Row{name[:cut]: name[cut:] + v})
		}
	}
	// ordering confusers: values that are prefixes of each other up to a NUL or
	// another low byte (tuple order is byte-wise; joined sort keys break here)
	if len(cols) > 0 && rapid.IntRange(0, 4).Draw(t, "prefixfamily") == 0 {
		fam := []string{"a", "a\x00b", "a\x00", "a\x01", "a ", "ab", "a\xff", ""}
		c0 := cols[rapid.IntRange(0, len(cols)-1).Draw(t, "famcol")]
		for i, v := range fam {
			if rapid.IntRange(0, 3).Draw(t, "famskip") == 0 {
				continue
			}
			row := model.Row{c0: v}
			for _, other := range cols {
				if other != c0 {
					row[other] = fam[(i*3+len(other))%len(fam)]
				}
			}
			rows = append(rows, row)
		}
	}
	if rapid.IntRange(0, 4).Draw(t, "trail") == 0 {
		k := rapid.IntRange(1, 3).Draw(t, "ntrail")
		for i := 0; i < k; i++ {
			rows = append(rows, model.Row{})
		}
	}
	return &DataSpec{Explicit: rows}
}

// LenWindows are the starts of the 40-wide windows a KLen column sweeps.
var LenWindows = []int{1, 41, 81, 121, 161, 201, 241}

var boundaryN = []int{0, 1, 2, 3, 999, 1000, 1001, 1002, 2000, 2001, 4095, 4096, 4097, 65535, 65536, 65537, 131071, 131072, 131073}

// RecipeN draws a row count, biased to the boundaries the code cares about.
func RecipeN(t *rapid.T, max int) int {
	if rapid.IntRange(0, 9).Draw(t, "nkind") < 6 {
		cands := make([]int, 0, len(boundaryN))
		for _, b := range boundaryN {
			if b <= max {
				cands = append(cands, b)
			}
		}
		return rapid.SampledFrom(cands).Draw(t, "nb")
	}
	return rapid.IntRange(0, max).Draw(t, "n")
}

func RecipeCol(t *rapid.T, name string, n int) ColSpec {
	c := ColSpec{Name: name}
	c.Kind = rapid.IntRange(0, KUnique-1).Draw(t, "kind") // unique only on request
	if rapid.IntRange(0, 5).Draw(t, "lensweep") == 0 {
		c.Kind = KLen
	}
	c.K = rapid.SampledFrom([]int{1, 2, 3, 7, 10, 64, 100, 999, 1000, 1001, 1500, 4096, 5000, 65536}).Draw(t, "k")
	c.R = rapid.IntRange(0, 9).Draw(t, "r")
	if c.Kind == KLen {
		c.K = rapid.SampledFrom(LenWindows).Draw(t, "lenwin")
		c.R = 40
	}
	c.Prefix = rapid.SampledFrom([]string{"", "v", "\xff", "é\"", "x\n"}).Draw(t, "pfx")
	c.Pres = rapid.SampledFrom([]int{PAlways, PAlways, PModNot, PPrefix, PNotLast}).Draw(t, "pres")
	switch c.Pres {
	case PModNot:
		c.P = rapid.SampledFrom([]int{2, 3, 10, 1000}).Draw(t, "p")
	case PPrefix:
		c.P = rapid.IntRange(0, n).Draw(t, "p")
	case PNotLast:
		c.P = rapid.SampledFrom([]int{1, 2, 100, 1000}).Draw(t, "p")
	}
	return c
}

// DrawRecipe draws a recipe dataset of at most max rows.
func DrawRecipe(t *rapid.T, max int, unique bool) *DataSpec {
	n := RecipeN(t, max)
	nc := rapid.IntRange(1, 4).Draw(t, "ncols")
	r := &Recipe{N: n}
	for i := 0; i < nc; i++ {
		r.Cols = append(r.Cols, RecipeCol(t, identCols[i], n))
	}
	if unique {
		r.Cols = append(r.Cols, ColSpec{Name: "u", Prefix: "r", Kind: KUnique, Pres: PAlways})
	}
	return &DataSpec{Recipe: r}
}

// Dataset draws explicit or recipe per options.
func Dataset(t *rapid.T, o DataOpts) *DataSpec {
	if o.MaxRecipeN > 0 && rapid.IntRange(0, 99).Draw(t, "mode") < o.RecipeProb {
		return DrawRecipe(t, o.MaxRecipeN, o.Unique)
	}
	return Explicit(t, o)
}
