package gen

import (
	"github.com/akrennmair/updog/verifharness/evid"
	"strings"

	"github.com/akrennmair/updog/verifharness/model"
	"pgregory.net/rapid"
)

type ExprOpts struct {
	UnknownPct int // percent of leaves on a column that occurs in no row (0 = never)
	MaxDepth   int
	MaxArity   int
	// AllowEmpty lets Confuse put operator nodes WITHOUT operands into an
	// expression.  What such a node means is not covered by the counting model
	// (it follows the library), so only checks whose oracle is another run of
	// the library (with/without cache, before/after, local/remote) may set it.
	AllowEmpty bool
}

// HasEmptyNode reports whether e contains an AND/OR node without operands.
func HasEmptyNode(e model.Expr) bool {
	if (e.Op == model.OpAnd || e.Op == model.OpOr) && len(e.Subs) == 0 {
		return true
	}
	for _, s := range e.Subs {
		if HasEmptyNode(s) {
			return true
		}
	}
	return false
}

// LeafPool prepares leaf candidates from a dataset.
type LeafPool struct {
	D         *model.Data
	Cols      []string
	Unknown   []string
	nulSplits []model.Expr
}

func NewLeafPool(d *model.Data) *LeafPool {
	p := &LeafPool{D: d, Cols: d.Columns()}
	for _, c := range []string{"nope", "zz", "q", "A0", "unknown_col"} {
		if !d.HasColumn(c) {
			p.Unknown = append(p.Unknown, c)
		}
	}
	for _, c := range p.Cols {
		if len(p.nulSplits) > 40 {
			break
		}
		for _, v := range d.Values(c) {
			if i := strings.IndexByte(v, 0); i >= 0 {
				if uc := c + "\x00" + v[:i]; !d.HasColumn(uc) {
					p.nulSplits = append(p.nulSplits, model.Eq(uc, v[i+1:]))
				}
			}
		}
	}
	return p
}

// Leaf draws a column=value test.
func (p *LeafPool) Leaf(t *rapid.T, o ExprOpts) model.Expr {
	k := rapid.IntRange(0, 99).Draw(t, "leafkind")
	if len(p.Cols) == 0 || (o.UnknownPct > 0 && k < o.UnknownPct) {
		// a dataset without any column only admits unknown-column leaves
		if len(p.nulSplits) > 0 && rapid.Bool().Draw(t, "nulsplit") {
			// an unknown column that is "column NUL value-prefix" of an existing
			// pair, compared with the rest of that value: both leaves hash alike
			// wherever column and value are joined with a NUL
			return p.nulSplits[rapid.IntRange(0, len(p.nulSplits)-1).Draw(t, "nulsplitidx")]
		}
		return model.Eq(rapid.SampledFrom(p.Unknown).Draw(t, "ucol"), Value().Draw(t, "uval"))
	}
	c := rapid.SampledFrom(p.Cols).Draw(t, "lcol")
	if k >= 85 {
		// existing column, value possibly absent from the data
		return model.Eq(c, Value().Draw(t, "absent")+rapid.SampledFrom([]string{"", "", "~"}).Draw(t, "sfx"))
	}
	vals := p.D.Values(c)
	// index draw keeps shrinking towards the smallest value
	return model.Eq(c, vals[rapid.IntRange(0, len(vals)-1).Draw(t, "vi")])
}

// AllowEmptyName adds the empty string to the names of columns that occur in
// no row (when that is the case).  Only for checks that hand expressions to the
// library as objects: the text syntax cannot name such a column.
func (p *LeafPool) AllowEmptyName() *LeafPool {
	if !p.D.HasColumn("") {
		p.Unknown = append(p.Unknown, "")
	}
	return p
}

// Expr draws an expression tree.
func (p *LeafPool) Expr(t *rapid.T, o ExprOpts) model.Expr {
	if o.MaxDepth == 0 {
		o.MaxDepth = 5
	}
	if o.MaxArity == 0 {
		o.MaxArity = 4
	}
	switch rapid.IntRange(0, 19).Draw(t, "shape") {
	case 2: // wide node: operand counts around typical buffer sizes
		n := rapid.SampledFrom([]int{6, 7, 8, 9, 15, 16, 17, 31, 32, 33, 40}).Draw(t, "wide")
		var subs []model.Expr
		if rapid.IntRange(0, 11).Draw(t, "verywide") == 0 {
			// a value list of the kind an IN (...) is written as: hundreds of
			// operands, made of a few drawn leaves in rotation
			n = rapid.SampledFrom([]int{63, 64, 65, 127, 128, 129, 255, 256, 257, 1000, 1001, 1024, 1025, 1500}).Draw(t, "verywiden")
			base := make([]model.Expr, rapid.IntRange(2, 6).Draw(t, "nbase"))
			for i := range base {
				base[i] = p.Leaf(t, o)
				if rapid.IntRange(0, 4).Draw(t, "widenot") == 0 {
					base[i] = model.Not(base[i])
				}
			}
			subs = make([]model.Expr, n)
			for i := range subs {
				subs[i] = base[i%len(base)]
			}
		} else {
			subs = make([]model.Expr, n)
			for i := range subs {
				subs[i] = p.Leaf(t, o)
				if rapid.IntRange(0, 4).Draw(t, "widenot") == 0 {
					subs[i] = model.Not(subs[i])
				}
			}
		}
		if rapid.Bool().Draw(t, "wideop") {
			return model.And(subs...)
		}
		return model.Or(subs...)
	case 0: // NOT chain
		e := p.Leaf(t, o)
		k := rapid.SampledFrom([]int{1, 1, 2, 2, 3, 4, 5, 6, 6, 99, 100, 101, 150}).Draw(t, "nots")
		for i := 0; i < k; i++ {
			e = model.Not(e)
		}
		return e
	case 1: // left-deep chain
		e := p.Leaf(t, o)
		k := rapid.SampledFrom([]int{2, 3, 5, 8, 13, 21, 40, 60, 99, 100, 101, 150, 300}).Draw(t, "chain")
		for i := 0; i < k; i++ {
			l := p.Leaf(t, o)
			if rapid.Bool().Draw(t, "cop") {
				e = model.And(e, l)
			} else {
				e = model.Or(l, e)
			}
		}
		return e
	}
	return p.tree(t, o, o.MaxDepth)
}

func (p *LeafPool) tree(t *rapid.T, o ExprOpts, depth int) model.Expr {
	k := rapid.IntRange(0, 9).Draw(t, "node")
	if depth <= 1 || k < 3 {
		return p.Leaf(t, o)
	}
	if k < 5 {
		return model.Not(p.tree(t, o, depth-1))
	}
	n := rapid.IntRange(1, o.MaxArity).Draw(t, "arity")
	subs := make([]model.Expr, n)
	for i := range subs {
		if i > 0 && rapid.IntRange(0, 5).Draw(t, "dup") == 0 {
			subs[i] = subs[rapid.IntRange(0, i-1).Draw(t, "dupi")] // duplicate operand
			continue
		}
		subs[i] = p.tree(t, o, depth-1)
	}
	if k < 8 {
		return model.And(subs...)
	}
	return model.Or(subs...)
}

// GroupBy draws a group-by list of length 0..maxLen over existing columns
// (repeats allowed); with unknownPct it may contain a column of no row.
func (p *LeafPool) GroupBy(t *rapid.T, maxLen int, unknownPct int) []string {
	if len(p.Cols) == 0 && unknownPct == 0 {
		return nil
	}
	n := rapid.IntRange(0, maxLen).Draw(t, "gblen")
	out := make([]string, 0, n)
	for i := 0; i < n; i++ {
		if len(p.Cols) == 0 || (unknownPct > 0 && rapid.IntRange(0, 99).Draw(t, "gbunk") < unknownPct) {
			out = append(out, rapid.SampledFrom(p.Unknown).Draw(t, "gbu"))
			continue
		}
		out = append(out, rapid.SampledFrom(p.Cols).Draw(t, "gbc"))
	}
	return out
}

// Confuse derives, from an expression pool, an expression designed to look
// alike structurally while meaning something else (or the same): operand
// duplication / permutation, the same leaves under the other operator or
// another association, NOT pairs, and the known XOR-key collision families.
func (p *LeafPool) Confuse(t *rapid.T, pool []model.Expr, o ExprOpts) model.Expr {
	pick := func(label string) model.Expr {
		if len(pool) == 0 {
			return p.Leaf(t, o)
		}
		return pool[rapid.IntRange(0, len(pool)-1).Draw(t, label)]
	}
	e := pick("base")
	if o.AllowEmpty && rapid.IntRange(0, 7).Draw(t, "emptynode") == 0 {
		// an operand list extended by an operator node without operands, next to
		// the same list without it: identical unless somebody flattens or skips
		empty := model.Expr{Op: rapid.SampledFrom([]int{model.OpAnd, model.OpOr}).Draw(t, "emptyop")}
		if e.Op == model.OpAnd || e.Op == model.OpOr {
			subs := append(append([]model.Expr(nil), e.Subs...), empty)
			if rapid.Bool().Draw(t, "emptyfirst") {
				subs = append([]model.Expr{empty}, e.Subs...)
			}
			return model.Expr{Op: e.Op, Subs: subs}
		}
		if rapid.Bool().Draw(t, "emptywrap") {
			return model.And(e, empty)
		}
		return model.Or(e, empty)
	}
	if rapid.IntRange(0, 9).Draw(t, "metamorphic") == 0 {
		// twins that must give the same answer: De Morgan, double negation
		// inside, an operand that is always true (AND) or never true (OR)
		a, b := e, pick("mb")
		never := model.Eq(firstCol(p), "\x01never\x02")
		switch rapid.IntRange(0, 7).Draw(t, "metakind") {
		case 5, 6:
			// two sibling operands that are the same node with its operands in
			// another order (equal under any order-independent key)
			if (a.Op == model.OpAnd || a.Op == model.OpOr) && len(a.Subs) > 1 {
				rev := make([]model.Expr, len(a.Subs))
				for i := range a.Subs {
					rev[len(a.Subs)-1-i] = a.Subs[i]
				}
				twin := model.Expr{Op: a.Op, Subs: rev}
				if rapid.Bool().Draw(t, "sibop") {
					return model.Or(a, twin)
				}
				return model.And(a, twin, b)
			}
			return model.Or(model.And(a, b), model.And(b, a))
		case 7:
			// a value list on one column with a value repeated, not next to itself
			if vl, ok := p.valueList(t); ok {
				return vl
			}
			return model.Or(a, b, a)
		case 0:
			return model.Not(model.Or(model.Not(a), model.Not(b))) // = a AND b
		case 1:
			return model.Not(model.And(model.Not(a), model.Not(b))) // = a OR b
		case 2:
			return model.And(a, model.Not(never))
		case 3:
			return model.Or(never, a)
		default:
			return model.And(model.Not(model.Not(a)), b)
		}
	}
	switch rapid.IntRange(0, 11).Draw(t, "confuser") {
	case 0: // x&x
		return model.And(e, e)
	case 1: // x|x
		return model.Or(e, e)
	case 2: // swap operator, same operands
		if e.Op == model.OpAnd {
			return model.Or(e.Subs...)
		}
		if e.Op == model.OpOr {
			return model.And(e.Subs...)
		}
		return model.Not(e)
	case 3: // permute operands
		if (e.Op == model.OpAnd || e.Op == model.OpOr) && len(e.Subs) > 1 {
			subs := append([]model.Expr(nil), e.Subs...)
			i := rapid.IntRange(0, len(subs)-1).Draw(t, "pi")
			j := rapid.IntRange(0, len(subs)-1).Draw(t, "pj")
			subs[i], subs[j] = subs[j], subs[i]
			return model.Expr{Op: e.Op, Subs: subs}
		}
		return model.Not(model.Not(e))
	case 4: // re-associate: op(a,b,c) -> op(a, op(b,c)) or other-op inside
		if (e.Op == model.OpAnd || e.Op == model.OpOr) && len(e.Subs) > 2 {
			inner := model.Expr{Op: e.Op, Subs: e.Subs[1:]}
			if rapid.Bool().Draw(t, "flipinner") {
				inner.Op = model.OpAnd + model.OpOr - e.Op
			}
			return model.Expr{Op: e.Op, Subs: []model.Expr{e.Subs[0], inner}}
		}
		return model.And(e, pick("o2"))
	case 5: // (a|c)&(b|c)  vs  ^a&^b
		a, b, c := pick("a"), pick("b"), pick("c")
		if rapid.Bool().Draw(t, "fam") {
			return model.And(model.Or(a, c), model.Or(b, c))
		}
		return model.And(model.Not(a), model.Not(b))
	case 6: // And(a,a,b) vs And(b)
		a, b := pick("a"), pick("b")
		if rapid.Bool().Draw(t, "fam") {
			return model.And(a, a, b)
		}
		return model.And(b)
	case 7: // Or(a,a,b) vs Or(b)
		a, b := pick("a"), pick("b")
		if rapid.Bool().Draw(t, "fam") {
			return model.Or(a, a, b)
		}
		return model.Or(b)
	case 8: // NOT of a pool member
		return model.Not(e)
	case 9: // single-operand wrappers
		if rapid.Bool().Draw(t, "w") {
			return model.And(e)
		}
		return model.Or(e)
	case 10: // nest: op(a, op'(b, c)) with the same leaf multiset as op'(a, op(b,c))
		a, b, c := pick("a"), pick("b"), pick("c")
		if rapid.Bool().Draw(t, "fam") {
			return model.And(a, model.Or(b, c))
		}
		return model.Or(a, model.And(b, c))
	default:
		if len(p.nulSplits) > 0 && rapid.Bool().Draw(t, "nultwin") {
			// the known leaf first, its NUL-split twin on an unknown column later
			tw := p.nulSplits[rapid.IntRange(0, len(p.nulSplits)-1).Draw(t, "nultwinidx")]
			i := strings.LastIndex(tw.Col, "\x00")
			known := model.Eq(tw.Col[:i], tw.Col[i+1:]+"\x00"+tw.Val)
			if rapid.Bool().Draw(t, "nultwinwhich") {
				return known
			}
			return tw
		}
		return p.Expr(t, o)
	}
}

// ErrorPrecedence returns expressions in which a test of a column that occurs
// in no row sits next to operands whose result already decides the node
// (nothing matches / everything matches), in every position: the error is
// due whatever the other operands evaluate to.
func (p *LeafPool) ErrorPrecedence(t *rapid.T) []model.Expr {
	if len(p.Cols) == 0 {
		return nil
	}
	c := rapid.SampledFrom(p.Cols).Draw(t, "epcol")
	none := model.Eq(c, "no-such-value~"+rapid.SampledFrom([]string{"", "x", "\x00"}).Draw(t, "epsfx"))
	all := model.Not(none)
	unk := model.Eq(rapid.SampledFrom(p.Unknown).Draw(t, "epunk"), Value().Draw(t, "epval"))
	some := p.Leaf(t, ExprOpts{})
	forms := []model.Expr{
		model.And(none, unk), model.And(unk, none), model.And(some, none, unk),
		model.Or(all, unk), model.Or(unk, all), model.Or(some, all, unk),
		model.And(none, model.Not(unk)), model.Or(all, model.And(some, unk)),
		model.Not(model.And(none, unk)), model.And(model.Or(all, some), model.Or(all, unk)),
	}
	// three of them per case
	out := make([]model.Expr, 0, 3)
	start := rapid.IntRange(0, len(forms)-1).Draw(t, "epstart")
	for i := 0; i < 3; i++ {
		out = append(out, forms[(start+i*3)%len(forms)])
	}
	return out
}

// valueList: OR(c=v1, c=v2, c=v1 [, c=v3 ...]) over the values of one column.
func (p *LeafPool) valueList(t *rapid.T) (model.Expr, bool) {
	if len(p.Cols) == 0 {
		return model.Expr{}, false
	}
	c := p.Cols[rapid.IntRange(0, len(p.Cols)-1).Draw(t, "vlc")]
	vals := p.D.Values(c)
	pickv := func(l string) model.Expr { return model.Eq(c, vals[rapid.IntRange(0, len(vals)-1).Draw(t, l)]) }
	x, y := pickv("vlx"), pickv("vly")
	subs := []model.Expr{x, y, x}
	for i, n := 0, rapid.IntRange(0, 3).Draw(t, "vlmore"); i < n; i++ {
		subs = append(subs, pickv("vlz"))
	}
	return model.Or(subs...), true
}

func firstCol(p *LeafPool) string {
	if len(p.Cols) > 0 {
		return p.Cols[0]
	}
	return "nope"
}

// UnknownSometimes returns expression options in which roughly one expression
// in ten may contain leaves on a column that occurs in no row (the error
// clause); the others only use existing columns, so that most expressions
// exercise evaluation rather than rejection.
func UnknownSometimes(t *rapid.T) ExprOpts {
	if rapid.IntRange(0, 9).Draw(t, "unk") == 0 {
		return ExprOpts{UnknownPct: 15}
	}
	return ExprOpts{}
}

// UTF8Expr replaces invalid UTF-8 in all leaf strings (protobuf string fields
// cannot carry invalid UTF-8, so cases that travel over gRPC are sanitised by
// construction).
func UTF8Expr(e model.Expr) model.Expr {
	out := model.Expr{Op: e.Op, Col: strings.ToValidUTF8(e.Col, "?"), Val: strings.ToValidUTF8(e.Val, "?")}
	for _, s := range e.Subs {
		out.Subs = append(out.Subs, UTF8Expr(s))
	}
	return out
}

// UTF8Spec sanitises a dataset spec in place the same way.
func UTF8Spec(s *DataSpec) {
	s.rows = nil
	if s.Recipe != nil {
		for i := range s.Recipe.Cols {
			s.Recipe.Cols[i].Name = strings.ToValidUTF8(s.Recipe.Cols[i].Name, "?")
			s.Recipe.Cols[i].Prefix = strings.ToValidUTF8(s.Recipe.Cols[i].Prefix, "?")
		}
		return
	}
	kept := s.Explicit[:0]
	for _, r := range s.Explicit {
		nr := model.Row{}
		long := false
		for k, v := range r {
			// names and values of tens of kilobytes make requests with many
			// operands exceed gRPC's default 4 MiB message limit, which is the
			// transport's business and no property's: such rows stay off the wire
			if len(k) > 4096 || len(v) > 4096 {
				long = true
			}
			nr[strings.ToValidUTF8(k, "?")] = strings.ToValidUTF8(v, "?")
		}
		if long {
			evid.Note("rows_with_huge_strings_kept_off_the_wire", 1)
			continue
		}
		kept = append(kept, nr)
	}
	s.Explicit = kept
}
