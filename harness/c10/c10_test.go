// C10 — formatting a query and parsing it back preserves its meaning.
package c10

import (
	"fmt"
	"os"
	"reflect"
	"strings"
	"testing"

	"github.com/akrennmair/updog/internal/queryparser"
	pb "github.com/akrennmair/updog/proto/updog/v1"
	"github.com/akrennmair/updog/verifharness/evid"
	"github.com/akrennmair/updog/verifharness/fix"
	"github.com/akrennmair/updog/verifharness/qref"
	"google.golang.org/protobuf/proto"
	"pgregory.net/rapid"
)

const prop = "C10"

func TestMain(m *testing.M) { fix.Main(m) }

// T is a gob-friendly mirror of the protobuf tree.
type T struct {
	Op   int // 0 eq, 1 not, 2 and, 3 or
	Col  string
	Val  string
	PH   int32
	Subs []T
}

type Case struct {
	Tree    T
	GroupBy []string
	// Share: structurally equal operator sub-trees are built as ONE node object
	// referenced from several places (a tree that is a DAG in memory); it
	// denotes the same query as the tree with separate copies.
	Share bool
}

func (t T) pb() *pb.Query_Expression {
	switch t.Op {
	case 0:
		return &pb.Query_Expression{Value: &pb.Query_Expression_Eq{Eq: &pb.Query_Expression_Equal{Column: t.Col, Value: t.Val, Placeholder: t.PH}}}
	case 1:
		return &pb.Query_Expression{Value: &pb.Query_Expression_Not_{Not: &pb.Query_Expression_Not{Expr: t.Subs[0].pb()}}}
	}
	var ops []*pb.Query_Expression
	for _, s := range t.Subs {
		ops = append(ops, s.pb())
	}
	if t.Op == 2 {
		return &pb.Query_Expression{Value: &pb.Query_Expression_And_{And: &pb.Query_Expression_And{Exprs: ops}}}
	}
	return &pb.Query_Expression{Value: &pb.Query_Expression_Or_{Or: &pb.Query_Expression_Or{Exprs: ops}}}
}

func (t T) pbShared(memo map[string]*pb.Query_Expression) *pb.Query_Expression {
	if t.Op == 0 {
		return t.pb()
	}
	key := fmt.Sprintf("%#v", t)
	if e, ok := memo[key]; ok {
		return e
	}
	var ops []*pb.Query_Expression
	for _, s := range t.Subs {
		ops = append(ops, s.pbShared(memo))
	}
	var e *pb.Query_Expression
	switch t.Op {
	case 1:
		e = &pb.Query_Expression{Value: &pb.Query_Expression_Not_{Not: &pb.Query_Expression_Not{Expr: ops[0]}}}
	case 2:
		e = &pb.Query_Expression{Value: &pb.Query_Expression_And_{And: &pb.Query_Expression_And{Exprs: ops}}}
	default:
		e = &pb.Query_Expression{Value: &pb.Query_Expression_Or_{Or: &pb.Query_Expression_Or{Exprs: ops}}}
	}
	memo[key] = e
	return e
}

func (c *Case) query() *pb.Query {
	if c.Share {
		return &pb.Query{Expr: c.Tree.pbShared(map[string]*pb.Query_Expression{}), GroupBy: append([]string(nil), c.GroupBy...)}
	}
	return &pb.Query{Expr: c.Tree.pb(), GroupBy: append([]string(nil), c.GroupBy...)}
}

func (c *Case) Summary() string {
	s := qref.QueryString(c.query())
	if len(s) > 600 {
		s = s[:600] + "…"
	}
	return s
}

type facts struct {
	orUnderAnd, andUnderOr, opUnderNot, nestedSame, single, quoteInValue bool
}

func (t T) scan(f *facts, parent int) {
	switch t.Op {
	case 0:
		if strings.Contains(t.Val, `"`) && t.PH == 0 {
			f.quoteInValue = true
		}
		return
	case 2, 3:
		if len(t.Subs) == 1 {
			f.single = true
		}
		if parent == t.Op {
			f.nestedSame = true
		}
		if parent == 2 && t.Op == 3 {
			f.orUnderAnd = true
		}
		if parent == 3 && t.Op == 2 {
			f.andUnderOr = true
		}
		if parent == 1 {
			f.opUnderNot = true
		}
	}
	for _, s := range t.Subs {
		s.scan(f, t.Op)
	}
}

// poke formats a malformed tree (an operand that is nil) under recover, the
// way a server that recovers from handler panics would: whatever that call
// does, it must not influence the formatting of later, valid trees.
func poke() {
	defer func() { recover() }()
	bad := &pb.Query{Expr: &pb.Query_Expression{Value: &pb.Query_Expression_And_{And: &pb.Query_Expression_And{Exprs: []*pb.Query_Expression{
		{Value: &pb.Query_Expression_Eq{Eq: &pb.Query_Expression_Equal{Column: "a", Value: "x"}}},
		{Value: &pb.Query_Expression_Eq{Eq: &pb.Query_Expression_Equal{Column: "b", Value: "y"}}},
		{Value: &pb.Query_Expression_Not_{Not: nil}}, nil}}}}}
	queryparser.QueryToString(bad)
}

var pokes int

func oracle(c *Case) error {
	if pokes++; pokes%50 == 1 {
		poke()
	}
	q := c.query()
	var text string
	if err := fix.Safe(func() error { text = queryparser.QueryToString(q); return nil }); err != nil {
		return fmt.Errorf("QueryToString: %v", err)
	}
	var parsed *pb.Query
	err := fix.Safe(func() error {
		var e error
		parsed, e = queryparser.ParseQuery(text)
		return e
	})
	if err != nil {
		return fmt.Errorf("formatted text %+q is not accepted by the parser: %v", clip(text), err)
	}
	wantN, gotN := qref.Norm(q.Expr), qref.Norm(parsed.Expr)
	if !proto.Equal(wantN, gotN) {
		return fmt.Errorf("meaning changed by format->parse via %+q:\n original (normalised) %s\n parsed   (normalised) %s", clip(text), qref.TreeString(wantN), qref.TreeString(gotN))
	}
	if !(len(q.GroupBy) == 0 && len(parsed.GroupBy) == 0) && !reflect.DeepEqual(q.GroupBy, parsed.GroupBy) {
		return fmt.Errorf("group-by list changed: %q -> %q (text %+q)", q.GroupBy, parsed.GroupBy, clip(text))
	}
	// the re-formatted text is a fixed point
	s1 := queryparser.QueryToString(parsed)
	p2, err := queryparser.ParseQuery(s1)
	if err != nil {
		return fmt.Errorf("re-formatted text %+q is not accepted: %v", clip(s1), err)
	}
	if s2 := queryparser.QueryToString(p2); s2 != s1 {
		return fmt.Errorf("re-formatted text is not stable: %+q -> %+q", clip(s1), clip(s2))
	}
	return nil
}

func clip(s string) string {
	if len(s) > 500 {
		return s[:500] + "…"
	}
	return s
}

func run(t interface{ Fatalf(string, ...any) }, c *Case, sub string) {
	defer fix.Track(prop, sub, c, c.Summary())()
	var f facts
	c.Tree.scan(&f, -1)
	var cl []string
	for name, b := range map[string]bool{"or-under-and": f.orUnderAnd, "and-under-or": f.andUnderOr, "andor-under-not": f.opUnderNot, "nested-same-op": f.nestedSame, "single-operand": f.single, "quote-in-value": f.quoteInValue} {
		if b {
			cl = append(cl, name)
		}
	}
	if len(c.GroupBy) > 0 {
		cl = append(cl, "group-by")
	}
	nt := f.orUnderAnd || f.andUnderOr || f.opUnderNot || f.quoteInValue
	evid.Case(nt, c.Summary(), cl...)
	if err := oracle(c); err != nil {
		fix.Fail(t, prop, sub, c, c.Summary(), err)
	}
}

// ---------------------------------------------------------------- exhaustive

// trees enumerates all trees of depth <= d over leaves {a="x", b=$1},
// NOT, AND/OR of arity 1..2.
func trees(d int) []T {
	leaves := []T{{Op: 0, Col: "a", Val: "x"}, {Op: 0, Col: "b", PH: 1}}
	if d == 0 {
		return leaves
	}
	sub := trees(d - 1)
	out := append([]T(nil), leaves...)
	for _, s := range sub {
		out = append(out, T{Op: 1, Subs: []T{s}})
	}
	for _, op := range []int{2, 3} {
		for _, s := range sub {
			out = append(out, T{Op: op, Subs: []T{s}})
		}
		for _, s1 := range sub {
			for _, s2 := range sub {
				out = append(out, T{Op: op, Subs: []T{s1, s2}})
			}
		}
	}
	return out
}

func exhaustive(t *testing.T, depth int) {
	all := trees(depth)
	shard, n := evid.Shard()
	for i := shard; i < len(all); i += n {
		gb := []string(nil)
		if i%3 == 1 {
			gb = []string{"a"}
		} else if i%3 == 2 {
			gb = []string{"b", "a", "b"}
		}
		run(t, &Case{Tree: all[i], GroupBy: gb}, "exhaustive")
	}
	evid.Exhaustive(fmt.Sprintf("all %d trees of depth <= %d over leaves {a=\"x\", b=$1}, NOT, AND/OR arity 1..2", len(all), depth))
}

// ---------------------------------------------------------------- random

var idents = []string{"a", "b", "c", "A", "col_1", "x9", "Zz_0", "count", "a_", "q", "and", "or", "not", "AND", "Or", "NOT", "null", "x_", "select", "by", "in"}
var hostile = []string{"\ufffd", "M\ufffdnchen", "say \"\ufffd\"\n", "\xc0\xa2", "a  b", "", "x", "\"", "\"\"", "\"a", "a\"", "\"a\"", "a\"\"b", "\n", "a\nb", "\r\n", "é", "日本", "💩", "\xff", "a\xffb", "\x00", " ", "  ", "\t",
	"$1", ";", "( )", "&", "|", "^", "=", ",", "a = \"b\"", "\\", "\\\"", "'", strings.Repeat("\"", 7), strings.Repeat("q", 200)}

// hugeBudget > 0 makes the next leaf drawn carry a very long value (set per
// case by drawCase, about one case in 300).
var hugeBudget int

func genTree(t *rapid.T, depth, maxArity int) T {
	k := rapid.IntRange(0, 9).Draw(t, "node")
	if depth <= 0 || k < 3 {
		leaf := T{Op: 0, Col: rapid.SampledFrom(idents).Draw(t, "col")}
		if hugeBudget > 0 {
			// very long values: buffers and pools sized for ordinary queries
			hugeBudget--
			leaf.Val = strings.Repeat(rapid.SampledFrom([]string{"x", "\"", "é", "a b "}).Draw(t, "hugeunit"), rapid.SampledFrom([]int{5000, 40000, 70000, 140000}).Draw(t, "hugelen"))
			return leaf
		}
		switch rapid.IntRange(0, 5).Draw(t, "leafkind") {
		case 0:
			leaf.PH = int32(rapid.SampledFrom([]int{1, 2, 3, 7, 100, 2147483647}).Draw(t, "ph"))
		case 1:
			leaf.Val = string(rapid.SliceOfN(rapid.Byte(), 0, 12).Draw(t, "bytes"))
		case 2:
			leaf.Val = rapid.StringN(0, 6, 20).Draw(t, "str")
		default:
			leaf.Val = rapid.SampledFrom(hostile).Draw(t, "hostile")
		}
		return leaf
	}
	if k < 5 {
		return T{Op: 1, Subs: []T{genTree(t, depth-1, maxArity)}}
	}
	op := 2
	if k >= 8 {
		op = 3
	}
	n := rapid.IntRange(1, maxArity).Draw(t, "arity")
	node := T{Op: op}
	for i := 0; i < n; i++ {
		node.Subs = append(node.Subs, genTree(t, depth-1, maxArity))
	}
	return node
}

func drawCase(t *rapid.T) *Case {
	hugeBudget = 0
	if rapid.IntRange(0, 300).Draw(t, "hugecase") == 0 {
		hugeBudget = 1
	}
	c := &Case{Tree: genTree(t, rapid.IntRange(0, 8).Draw(t, "depth"), rapid.IntRange(1, 6).Draw(t, "maxarity"))}
	if rapid.IntRange(0, 9).Draw(t, "share") == 0 {
		// the same operator node at two places of one tree
		x := c.Tree
		if x.Op == 0 {
			x = T{Op: 1, Subs: []T{x}}
		}
		switch rapid.IntRange(0, 2).Draw(t, "sharehow") {
		case 0:
			c.Tree = T{Op: 2, Subs: []T{x, x}}
		case 1:
			c.Tree = T{Op: 3, Subs: []T{{Op: 1, Subs: []T{x}}, x}}
		default:
			c.Tree = T{Op: 2, Subs: []T{x, {Op: 3, Subs: []T{genTree(t, 1, 2), x}}}}
		}
		c.Share = true
	}
	n := rapid.IntRange(0, 8).Draw(t, "ngb")
	if rapid.Bool().Draw(t, "nogb") {
		n = 0
	}
	for i := 0; i < n; i++ {
		c.GroupBy = append(c.GroupBy, rapid.SampledFrom(idents).Draw(t, "gb"))
	}
	return c
}

func replay(cf *evid.CaseFile) error {
	var c Case
	if err := evid.Decode(cf.Gob, &c); err != nil {
		return err
	}
	return oracle(&c)
}

// big: more than 65,536 of something in one tree; manyNames: more distinct
// column names than any table of names is likely to hold, then the first ones
// again.
func big(t *testing.T) {
	leaf := func(c, v string) T { return T{Op: 0, Col: c, Val: v} }
	for _, n := range []int{65537, 70000} {
		var nots, pairs []T
		for i := 0; i < n; i++ {
			nots = append(nots, T{Op: 1, Subs: []T{leaf("a", "1")}})
			pairs = append(pairs, T{Op: 2, Subs: []T{leaf("a", "1"), leaf("b", "2")}})
		}
		run(t, &Case{Tree: T{Op: 2, Subs: nots}}, "big")
		run(t, &Case{Tree: T{Op: 3, Subs: pairs}}, "big")
		deep := leaf("a", "1")
		for i := 0; i < n; i++ {
			deep = T{Op: 1, Subs: []T{deep}}
		}
		run(t, &Case{Tree: deep}, "big")
		gb := make([]string, n)
		for i := range gb {
			gb[i] = "f"
		}
		run(t, &Case{Tree: leaf("a", "1"), GroupBy: gb}, "big")
	}
}

func manyNames(t *testing.T, n int) {
	for round := 0; round < 2; round++ {
		lim := n
		if round == 1 {
			lim = 150
		}
		for i := 0; i < lim; i++ {
			name := fmt.Sprintf("attr_%d", i)
			run(t, &Case{Tree: T{Op: 2, Subs: []T{{Op: 0, Col: name, Val: "1"}, {Op: 1, Subs: []T{{Op: 0, Col: "x" + name, PH: 1}}}}}, GroupBy: []string{name, "g" + name}}, "many-names")
		}
	}
}

func TestQuick(t *testing.T) {
	fix.Pinned(t, prop, replay)
	big(t)
	manyNames(t, 1300)
	exhaustive(t, 2)
	fix.Check(t, "random", 20000, func(rt *rapid.T) { run(rt, drawCase(rt), "random") })
}

func TestThorough(t *testing.T) {
	if shard, _ := evid.Shard(); shard == 0 {
		fix.Pinned(t, prop, replay)
	}
	if shard, _ := evid.Shard(); shard == 1 {
		big(t)
		manyNames(t, 70000)
	}
	exhaustive(t, 3)
	fix.Check(t, "random", 100000, func(rt *rapid.T) { run(rt, drawCase(rt), "random") })
}

func TestReplay(t *testing.T) {
	cf := fix.ReplayFile(t)
	if err := replay(cf); err != nil {
		t.Fatalf("replay of %s/%s fails: %v", cf.Property, cf.Sub, err)
	}
}

func FuzzRoundTrip(f *testing.F) {
	f.Fuzz(rapid.MakeFuzz(func(rt *rapid.T) {
		c := drawCase(rt)
		if err := oracle(c); err != nil {
			os.Setenv("VERIF_SHARD", "97")
			fix.Fail(rt, prop, "random", c, c.Summary(), err)
		}
	}))
}
