// C08 — executing a query does not change what the Query value means.
package c08

import (
	"fmt"
	"os"
	"reflect"
	"strings"
	"testing"

	"github.com/akrennmair/updog"
	"github.com/akrennmair/updog/verifharness/evid"
	"github.com/akrennmair/updog/verifharness/fix"
	"github.com/akrennmair/updog/verifharness/gen"
	"github.com/akrennmair/updog/verifharness/model"
	"pgregory.net/rapid"
)

const prop = "C08"

func TestMain(m *testing.M) { fix.Main(m) }

// Case: up to three datasets (sharing column names by construction), one
// query, and a schedule naming the index of each successive execution.
type Case struct {
	Data     []gen.DataSpec
	Expr     model.Expr
	GroupBy  []string
	Schedule []int
	Open     []fix.OpenCfg
	// Edits[i], applied by the CALLER to the Query value in place before
	// execution i (i>=1): the Query then simply is another query, and must
	// behave like a freshly constructed equal one.
	Edits []Edit
	// Copies[i]: execution i runs on a shallow copy of the Query value
	// (cp := *q), as a caller does that hands a prepared query to another
	// owner; the original is used again afterwards.
	Copies []bool
}

// Edit kinds.
const (
	ENone        = iota
	EGroupBy     // q.GroupBy[Pos] = Col          (same length, same backing array)
	EOperand     // root AND/OR: Exprs[Pos] = New (same operand count)
	ELeafValue   // root is a leaf: Value = Val
	EGroupByTail // q.GroupBy = append(q.GroupBy[:0], rotated...)   (same length)
	EGroupByNone // q.GroupBy = nil (Pos even) or q.GroupBy[:0] (Pos odd): no group-by any more
	EInnerLeaf   // the first comparison found below the root gets Value = Val (operand counts unchanged)
)

type Edit struct {
	Kind int
	Pos  int
	Col  string
	Val  string
	New  model.Expr
}

func (c *Case) Summary() string {
	var b strings.Builder
	for i := range c.Data {
		fmt.Fprintf(&b, "index%d(%s)=%s ", i, c.Open[i], c.Data[i].Summary())
	}
	fmt.Fprintf(&b, "query %s GROUP BY %+q schedule %v", c.Expr.String(), c.GroupBy, c.Schedule)
	for i, e := range c.Edits {
		switch e.Kind {
		case EGroupBy:
			fmt.Fprintf(&b, " before#%d:GroupBy[%d]=%q", i, e.Pos, e.Col)
		case EOperand:
			fmt.Fprintf(&b, " before#%d:operand[%d]=%s", i, e.Pos, e.New.String())
		case ELeafValue:
			fmt.Fprintf(&b, " before#%d:leaf.Value=%+q", i, e.Val)
		case EGroupByTail:
			fmt.Fprintf(&b, " before#%d:GroupBy-rotated-in-place", i)
		case EGroupByNone:
			fmt.Fprintf(&b, " before#%d:GroupBy-cleared(nil=%v)", i, e.Pos%2 == 0)
		case EInnerLeaf:
			fmt.Fprintf(&b, " before#%d:first-inner-leaf.Value=%+q", i, e.Val)
		}
	}
	return b.String()
}

func oracle(c *Case) error {
	dir := fix.CaseDir()
	defer os.RemoveAll(dir)
	var idxs []*updog.Index
	var pathsOf []string
	var datas []*model.Data
	defer func() {
		for _, i := range idxs {
			fix.Safe(i.Close)
		}
	}()
	for i := range c.Data {
		rows := c.Data[i].Rows()
		path, _, err := fix.Build(dir, rows, i%fix.NWriters)
		if err != nil {
			return fmt.Errorf("build %d: %v", i, err)
		}
		idx, _, err := fix.Open(path, c.Open[i])
		if err != nil {
			return fmt.Errorf("open %d: %v", i, err)
		}
		idxs = append(idxs, idx)
		pathsOf = append(pathsOf, path)
		datas = append(datas, model.NewData(rows))
	}
	q := fix.NewQuery(c.Expr, c.GroupBy)
	curExpr := c.Expr
	curGB := append([]string(nil), c.GroupBy...)
	snapExpr := fix.ToUpdog(curExpr)
	snapGB := append([]string(nil), curGB...)
	// every result handed out is kept by the caller and looked at again after
	// each later execution: executing the Query again (on this or another
	// index, before or after an edit) must not change a result already returned
	type kept struct {
		step int
		res  *updog.Result
		snap model.Result
	}
	var keptResults []kept
	for step, k := range c.Schedule {
		if step < len(c.Edits) && step > 0 {
			// the caller edits its Query value in place; the model follows
			switch e := c.Edits[step]; e.Kind {
			case EGroupBy:
				if len(q.GroupBy) > 0 {
					p := e.Pos % len(q.GroupBy)
					q.GroupBy[p] = e.Col
					curGB[p] = e.Col
				}
			case EGroupByTail:
				if len(q.GroupBy) > 1 {
					rot := append(append([]string(nil), curGB[1:]...), curGB[0])
					q.GroupBy = append(q.GroupBy[:0], rot...)
					curGB = rot
				}
			case EOperand:
				if (curExpr.Op == model.OpAnd || curExpr.Op == model.OpOr) && len(curExpr.Subs) > 0 {
					p := e.Pos % len(curExpr.Subs)
					subs := append([]model.Expr(nil), curExpr.Subs...)
					subs[p] = e.New
					curExpr = model.Expr{Op: curExpr.Op, Subs: subs}
					switch x := q.Expr.(type) {
					case *updog.ExprAnd:
						x.Exprs[p] = fix.ToUpdog(e.New)
					case *updog.ExprOr:
						x.Exprs[p] = fix.ToUpdog(e.New)
					}
				}
			case ELeafValue:
				if curExpr.Op == model.OpEq {
					curExpr.Val = e.Val
					q.Expr.(*updog.ExprEqual).Value = e.Val
				}
			case EGroupByNone:
				if e.Pos%2 == 0 {
					q.GroupBy = nil
				} else {
					q.GroupBy = q.GroupBy[:0]
				}
				curGB = nil
			case EInnerLeaf:
				if curExpr.Op != model.OpEq {
					var setM func(x model.Expr) (model.Expr, bool)
					setM = func(x model.Expr) (model.Expr, bool) {
						if x.Op == model.OpEq {
							x.Val = e.Val
							return x, true
						}
						subs := append([]model.Expr(nil), x.Subs...)
						for i := range subs {
							if n, ok := setM(subs[i]); ok {
								subs[i] = n
								return model.Expr{Op: x.Op, Col: x.Col, Val: x.Val, Subs: subs}, true
							}
						}
						return x, false
					}
					var setU func(x updog.Expression) bool
					setU = func(x updog.Expression) bool {
						switch v := x.(type) {
						case *updog.ExprEqual:
							v.Value = e.Val
							return true
						case *updog.ExprNot:
							return setU(v.Expr)
						case *updog.ExprAnd:
							for _, s := range v.Exprs {
								if setU(s) {
									return true
								}
							}
						case *updog.ExprOr:
							for _, s := range v.Exprs {
								if setU(s) {
									return true
								}
							}
						}
						return false
					}
					if n, ok := setM(curExpr); ok {
						curExpr = n
						setU(q.Expr)
					}
				}
			}
			snapExpr = fix.ToUpdog(curExpr)
			snapGB = append([]string(nil), curGB...)
		}
		target := q
		if step < len(c.Copies) && c.Copies[step] {
			cp := *q
			target = &cp
		}
		res, err := fix.Exec(idxs[k], target)
		// the same query value must mean what a fresh equal query means
		fres, ferr := fix.Exec(idxs[k], fix.NewQuery(curExpr, curGB))
		if fix.IsPanic(err) {
			return fmt.Errorf("execution %d on index %d: %v", step, k, err)
		}
		if (err == nil) != (ferr == nil) {
			return fmt.Errorf("execution %d on index %d: reused query err=%v, fresh equal query err=%v", step, k, err, ferr)
		}
		if err == nil && !reflect.DeepEqual(fix.FromResult(res), fix.FromResult(fres)) {
			return fmt.Errorf("execution %d on index %d: reused query returned %s, a fresh equal query returned %s", step, k, short(res), short(fres))
		}
		if cerr := fix.CompareOutcome(datas[k], curExpr, curGB, res, err); cerr != nil {
			return fmt.Errorf("execution %d on index %d: %v", step, k, cerr)
		}
		for _, kr := range keptResults {
			if now := fix.FromResult(kr.res); !reflect.DeepEqual(now, kr.snap) {
				return fmt.Errorf("the result returned by execution %d was changed by execution %d (index %d): it was %+v, now it reads %+v", kr.step, step, k, clipv(kr.snap), clipv(now))
			}
		}
		if err == nil && res != nil {
			keptResults = append(keptResults, kept{step, res, fix.FromResult(res)})
		}
		if !fix.SameExpr(q.Expr, snapExpr) {
			return fmt.Errorf("after execution %d the Query's Expr changed: %s", step, q.Expr.String())
		}
		if len(q.GroupBy) != len(snapGB) || (len(snapGB) > 0 && !reflect.DeepEqual(q.GroupBy, snapGB)) {
			return fmt.Errorf("after execution %d the Query's GroupBy changed: %+q (was %+q)", step, q.GroupBy, snapGB)
		}
	}
	return nil
}

func clipv(r model.Result) string {
	s := fmt.Sprintf("%+v", r)
	if len(s) > 300 {
		s = s[:300] + "…"
	}
	return s
}

func short(r *updog.Result) string {
	if r == nil {
		return "<nil>"
	}
	s := fmt.Sprintf("%+v", *r)
	if len(s) > 400 {
		s = s[:400] + "…"
	}
	return s
}

func classify(c *Case) (bool, []string) {
	cl := []string{fmt.Sprintf("execs:%d", len(c.Schedule)), fmt.Sprintf("gblen:%d", len(c.GroupBy))}
	distinct := map[int]bool{}
	for _, k := range c.Schedule {
		distinct[k] = true
	}
	if len(distinct) > 1 {
		cl = append(cl, "cross-index")
	}
	errBetween := false
	for i, k := range c.Schedule {
		if model.NewData(c.Data[k].Rows()).Rejects(c.Expr, c.GroupBy) && i < len(c.Schedule)-1 {
			errBetween = true
		}
	}
	if errBetween {
		cl = append(cl, "error-then-more-executions")
	}
	return len(c.GroupBy) > 0 && len(c.Schedule) >= 2, cl
}

func run(t interface{ Fatalf(string, ...any) }, c *Case) {
	defer fix.Track(prop, "reexec", c, c.Summary())()
	nt, cl := classify(c)
	evid.Case(nt, c.Summary(), cl...)
	if err := oracle(c); err != nil {
		fix.Fail(t, prop, "reexec", c, c.Summary(), err)
	}
}

func drawCase(t *rapid.T) *Case {
	c := &Case{}
	n := rapid.IntRange(1, 3).Draw(t, "nidx")
	for i := 0; i < n; i++ {
		c.Data = append(c.Data, *gen.Explicit(t, gen.DataOpts{MaxRows: 25, IdentCols: true}))
		oc := fix.OpenCfg{Preload: rapid.Bool().Draw(t, "preload"), CacheCap: -1}
		if rapid.IntRange(0, 3).Draw(t, "cache") == 0 {
			oc.CacheCap = 1 << 20
		}
		c.Open = append(c.Open, oc)
	}
	if n > 1 && rapid.IntRange(0, 3).Draw(t, "twinindex") == 0 {
		// the second index holds exactly the data of the first (another file,
		// another handle): what is right on the first must be right on the second
		c.Data[1] = c.Data[0]
	}
	d0 := model.NewData(c.Data[0].Rows())
	pool := gen.NewLeafPool(d0).AllowEmptyName()
	c.Expr = pool.Expr(t, gen.ExprOpts{MaxDepth: 4})
	c.GroupBy = pool.GroupBy(t, 6, 0)
	k := rapid.IntRange(2, 6).Draw(t, "nexec")
	for i := 0; i < k; i++ {
		c.Schedule = append(c.Schedule, rapid.IntRange(0, n-1).Draw(t, "which"))
	}
	if rapid.IntRange(0, 3).Draw(t, "copies") == 0 {
		c.Copies = make([]bool, k)
		for i := range c.Copies {
			c.Copies[i] = rapid.Bool().Draw(t, "copy")
		}
	}
	if rapid.IntRange(0, 2).Draw(t, "edits") == 0 {
		c.Edits = make([]Edit, k)
		for i := 1; i < k; i++ {
			if rapid.Bool().Draw(t, "edit?") {
				continue
			}
			e := Edit{Kind: rapid.IntRange(EGroupBy, EInnerLeaf).Draw(t, "editkind"), Pos: rapid.IntRange(0, 7).Draw(t, "editpos")}
			if len(pool.Cols) > 0 {
				e.Col = rapid.SampledFrom(pool.Cols).Draw(t, "editcol")
			} else {
				e.Col = "nope"
			}
			e.Val = gen.Value().Draw(t, "editval")
			e.New = pool.Expr(t, gen.ExprOpts{MaxDepth: 2})
			c.Edits[i] = e
		}
	}
	return c
}

func replay(cf *evid.CaseFile) error {
	if cf.Sub == "wrap" {
		var c WrapCase
		if err := evid.Decode(cf.Gob, &c); err != nil {
			return err
		}
		return wrapOracle(&c)
	}
	var c Case
	if err := evid.Decode(cf.Gob, &c); err != nil {
		return fmt.Errorf("undecodable case: %v", err)
	}
	return oracle(&c)
}

// WrapCase: a Query is executed on index A; exactly Gap-1 other Index objects
// are opened and closed; then an index B with the same columns but other
// values is opened (the Gap-th open after A) and the same Query value is
// executed on it.  Gaps are powers of two: whatever numbers or stamps Index
// objects must not wrap around into "the index this Query has seen".
type WrapCase struct{ Gaps []int }

func (c *WrapCase) Summary() string {
	return fmt.Sprintf("one Query on index A, then on an index B (same columns, other values) opened exactly %v Index objects later", c.Gaps)
}

func wrapOracle(c *WrapCase) error {
	dir := fix.CaseDir()
	defer os.RemoveAll(dir)
	rowsA := []model.Row{{"a": "1", "b": "x"}, {"a": "2", "b": "x"}, {"a": "2", "b": "y"}}
	rowsB := []model.Row{{"a": "7", "b": "p"}, {"a": "8", "b": "q"}, {"a": "9", "b": "q"}, {"a": "9"}}
	pa, _, err := fix.Build(dir, rowsA, fix.WMemFile)
	if err != nil {
		return fmt.Errorf("INFRA: %v", err)
	}
	pb, _, err := fix.Build(dir, rowsB, fix.WMemFile)
	if err != nil {
		return fmt.Errorf("INFRA: %v", err)
	}
	expr, gb := model.Not(model.Eq("a", "none")), []string{"a", "b"}
	q := fix.NewQuery(expr, gb)
	ia, _, err := fix.Open(pa, fix.OpenCfg{CacheCap: -1})
	if err != nil {
		return fmt.Errorf("INFRA: %v", err)
	}
	defer func() { fix.Safe(ia.Close) }()
	res, err := fix.Exec(ia, q)
	if cerr := fix.CompareOutcome(model.NewData(rowsA), expr, gb, res, err); cerr != nil {
		return fmt.Errorf("on index A: %v", cerr)
	}
	opened := 0
	for _, gap := range c.Gaps {
		for ; opened < gap-1; opened++ {
			x, _, err := fix.Open(pa, fix.OpenCfg{CacheCap: -1})
			if err != nil {
				return fmt.Errorf("INFRA: %v", err)
			}
			x.Close()
		}
		ib, _, err := fix.Open(pb, fix.OpenCfg{CacheCap: -1})
		if err != nil {
			return fmt.Errorf("INFRA: %v", err)
		}
		opened++
		res, err := fix.Exec(ib, q)
		cerr := fix.CompareOutcome(model.NewData(rowsB), expr, gb, res, err)
		ib.Close()
		if cerr != nil {
			return fmt.Errorf("the Query executed on index A and then on index B, the %d-th Index opened after A: %v", gap, cerr)
		}
		// and on A again
		res, err = fix.Exec(ia, q)
		if cerr := fix.CompareOutcome(model.NewData(rowsA), expr, gb, res, err); cerr != nil {
			return fmt.Errorf("back on index A after index B (gap %d): %v", gap, cerr)
		}
	}
	return nil
}

func runWrap(t interface{ Fatalf(string, ...any) }, c *WrapCase) {
	defer fix.Track(prop, "wrap", c, c.Summary())()
	evid.Case(true, c.Summary(), "index-number-wrap")
	if err := wrapOracle(c); err != nil {
		if strings.HasPrefix(err.Error(), "INFRA:") {
			panic(err.Error())
		}
		fix.Fail(t, prop, "wrap", c, c.Summary(), err)
	}
}

func TestQuick(t *testing.T) {
	fix.Pinned(t, prop, replay)
	runWrap(t, &WrapCase{Gaps: []int{256, 65536}})
	fix.Check(t, "reexec", 3000, func(rt *rapid.T) { run(rt, drawCase(rt)) })
}

func TestThorough(t *testing.T) {
	if shard, _ := evid.Shard(); shard == 0 {
		fix.Pinned(t, prop, replay)
		runWrap(t, &WrapCase{Gaps: []int{256, 65536, 131072}})
	}
	fix.Check(t, "reexec", 40000, func(rt *rapid.T) { run(rt, drawCase(rt)) })
}

func TestReplay(t *testing.T) {
	cf := fix.ReplayFile(t)
	if err := replay(cf); err != nil {
		t.Fatalf("replay of %s/%s fails: %v", cf.Property, cf.Sub, err)
	}
}
