package fix

import (
	"fmt"
	"os"
	"runtime"
	"sync/atomic"
	"testing"

	"github.com/akrennmair/updog/verifharness/evid"
	"pgregory.net/rapid"
)

var scratch string

// Scratch returns the per-run scratch directory ($VERIF_SCRATCH, created by
// the driver and removed by it; a private temp dir otherwise).
func Scratch() string {
	if scratch != "" {
		return scratch
	}
	if s := os.Getenv("VERIF_SCRATCH"); s != "" {
		scratch = s
	} else {
		d, err := os.MkdirTemp("", "verif-scratch-")
		if err != nil {
			panic(err)
		}
		scratch = d
	}
	return scratch
}

// CaseDir returns a fresh directory for one case; the caller removes it.
func CaseDir() string {
	d, err := os.MkdirTemp(Scratch(), "case-")
	if err != nil {
		panic(err)
	}
	return d
}

// Main is the TestMain body shared by all check packages.
func Main(m *testing.M) {
	startHangMonitor()
	code := m.Run()
	evid.Flush()
	if os.Getenv("VERIF_SCRATCH") == "" && scratch != "" {
		os.RemoveAll(scratch)
	}
	os.Exit(code)
}

// Check runs a rapid property n times (scaled by $VERIF_SCALE), recording
// requested vs completed executions so that a run cut short by a deadline is
// reported as inconclusive by the driver rather than as a pass.
func Check(t *testing.T, sub string, n int, prop func(*rapid.T)) {
	t.Helper()
	if only := os.Getenv("VERIF_ONLY_SUB"); only != "" && only != sub {
		return // development aid: run a single sub-check
	}
	n = evid.SetChecks(n)
	evid.Requested(sub, n)
	var done atomic.Int64
	baseline := runtime.NumGoroutine()
	rapid.Check(t, func(rt *rapid.T) {
		prop(rt)
		done.Add(1)
		leakAfterCase(rt, sub, baseline)
	})
	got := int(done.Load())
	if got > n {
		got = n
	}
	evid.Achieved(sub, got)
}

// Fail serialises the failing case and fails the rapid test.  It is called on
// every failing execution; rapid re-runs the minimal case last, so the file
// ends up holding the shrunk case.
func Fail(t interface{ Fatalf(string, ...any) }, prop, sub string, kase any, summary string, err error) {
	p := evid.WriteCase(prop, sub, kase, summary, err)
	t.Fatalf("property %s/%s violated: %v\ncase: %s\nreplay file: %s", prop, sub, err, clip(summary, 1500), p)
}

func clip(s string, n int) string {
	if len(s) > n {
		return s[:n] + "…"
	}
	return s
}

// ReplayFile returns the case file named by $VERIF_REPLAY_FILE.
func ReplayFile(t *testing.T) *evid.CaseFile {
	p := os.Getenv("VERIF_REPLAY_FILE")
	if p == "" {
		t.Skip("VERIF_REPLAY_FILE not set")
	}
	cf, err := evid.ReadCase(p)
	if err != nil {
		t.Fatalf("cannot read replay file: %v", err)
	}
	return cf
}

// Pinned runs every pinned case file of a property found in
// $VERIF_CORPUS/<prop>/*.json through replay.  Files with expect=="pass" are
// regressions of repaired defects: a failure is a violation.  Files with
// expect=="known" are listed known findings: a failure is recorded as such
// (the driver prints KNOWN-FINDING and does not count it), a pass is silent.
func Pinned(t *testing.T, prop string, replay func(cf *evid.CaseFile) error) {
	dir := os.Getenv("VERIF_CORPUS")
	if dir == "" {
		return
	}
	ents, err := os.ReadDir(dir + "/" + prop)
	if err != nil {
		return
	}
	for _, e := range ents {
		if e.IsDir() || len(e.Name()) < 6 || e.Name()[len(e.Name())-5:] != ".json" {
			continue
		}
		p := dir + "/" + prop + "/" + e.Name()
		cf, err := evid.ReadCase(p)
		if err != nil {
			t.Fatalf("pinned case %s unreadable: %v", p, err)
		}
		evid.InflightFile(prop, "pinned", cf)
		rerr := replay(cf)
		evid.ClearInflight(prop, "pinned")
		evid.Note("pinned_cases_run", 1)
		switch {
		case rerr == nil:
		case cf.Expect == "known":
			evid.Known(fmt.Sprintf("%s %s: %s", e.Name(), cf.Note, firstLine(rerr.Error())))
		default:
			fmt.Printf("PINNED-VIOLATION %s\n", p)
			t.Fatalf("pinned regression case %s fails: %v", p, rerr)
		}
	}
}

func firstLine(s string) string {
	for i := 0; i < len(s); i++ {
		if s[i] == '\n' {
			return s[:i]
		}
	}
	return s
}
