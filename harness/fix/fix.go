// Package fix holds fixtures around the code under test: building an index
// with each writer configuration, opening it with each option set, converting
// between the model's and updog's types, and running updog code under
// recover so that a panic becomes an oracle failure rather than a dead run.
package fix

import (
	"fmt"
	"io"
	"os"
	"path/filepath"
	"runtime/debug"
	"sync/atomic"

	"github.com/akrennmair/updog"
	"github.com/akrennmair/updog/verifharness/model"
	"go.etcd.io/bbolt"
)

// Writer configurations.
const (
	WMemFile = iota // IndexWriter.Flush to a fresh path
	WMemBolt        // IndexWriter.WriteToBoltDatabase into a harness-opened DB
	WBig            // BigIndexWriter with fresh output + temp DBs
	NWriters
)

var WriterName = []string{"mem-file", "mem-bolt", "big"}

// Safe runs f and converts a panic into an error carrying the stack.
func Safe(f func() error) (err error) {
	callEnter()
	defer callExit()
	// a fault at a non-nil address inside the call (a read through a memory map
	// that is gone or too short) becomes a panic of this goroutine instead of
	// the death of the process: the case is then reported and shrunk like any
	// other panic
	defer debug.SetPanicOnFault(debug.SetPanicOnFault(true))
	defer func() {
		if r := recover(); r != nil {
			err = &PanicError{Val: r, Stack: string(debug.Stack())}
		}
	}()
	return f()
}

type PanicError struct {
	Val   any
	Stack string
}

func (p *PanicError) Error() string { return fmt.Sprintf("PANIC: %v\n%s", p.Val, trimStack(p.Stack)) }

func trimStack(s string) string {
	if len(s) > 2500 {
		return s[:2500] + "…"
	}
	return s
}

func IsPanic(err error) bool { _, ok := err.(*PanicError); return ok }

var seq atomic.Int64

// TempPath returns a fresh path inside dir.
func TempPath(dir, stem string) string {
	return filepath.Join(dir, fmt.Sprintf("%s-%d-%d", stem, os.Getpid(), seq.Add(1)))
}

type rowAdder interface {
	AddRow(map[string]string) (uint32, error)
}

// Build writes rows with the given writer configuration to a fresh file in
// dir and returns its path and the ids AddRow returned.
func Build(dir string, rows []model.Row, cfg int) (path string, ids []uint32, err error) {
	path = TempPath(dir, "idx-"+WriterName[cfg]) + ".updog"
	ids, err = BuildAt(path, rows, cfg)
	return path, ids, err
}

// BuildAt is Build with a caller-chosen (not yet existing) output path.
func BuildAt(path string, rows []model.Row, cfg int) (ids []uint32, err error) {
	err = Safe(func() error {
		add := func(w rowAdder) error {
			ids = make([]uint32, 0, len(rows))
			for i, r := range rows {
				id, err := w.AddRow(r)
				if err != nil {
					return fmt.Errorf("AddRow #%d: %w", i, err)
				}
				ids = append(ids, id)
			}
			return nil
		}
		switch cfg {
		case WMemFile:
			w := updog.NewIndexWriter(path)
			if err := add(w); err != nil {
				return err
			}
			return w.Flush()
		case WMemBolt:
			w := updog.NewIndexWriter("")
			if err := add(w); err != nil {
				return err
			}
			db, err := bbolt.Open(path, 0o644, nil)
			if err != nil {
				return err
			}
			defer db.Close()
			return w.WriteToBoltDatabase(db)
		case WBig:
			tmp := path + ".tmp"
			defer os.Remove(tmp)
			tdb, err := bbolt.Open(tmp, 0o600, nil)
			if err != nil {
				return err
			}
			defer tdb.Close()
			db, err := bbolt.Open(path, 0o644, nil)
			if err != nil {
				return err
			}
			defer db.Close()
			w, err := updog.NewBigIndexWriter(db, tdb)
			if err != nil {
				return err
			}
			// an abandoned big writer keeps a write transaction open on the temp
			// db; without releasing it the deferred tdb.Close() above never returns
			if cl, ok := any(w).(interface{ Close() error }); ok {
				defer cl.Close()
			}
			if err := add(w); err != nil {
				return err
			}
			return w.Flush()
		}
		return fmt.Errorf("bad writer cfg %d", cfg)
	})
	return ids, err
}

// Counter implements updog.CounterMetric.
type Counter struct{ N atomic.Int64 }

func (c *Counter) Inc() { c.N.Add(1) }

type CacheCounters struct{ Hit, Miss, Get, Put Counter }

func (c *CacheCounters) Metrics() *updog.CacheMetrics {
	return &updog.CacheMetrics{CacheHit: &c.Hit, CacheMiss: &c.Miss, GetCall: &c.Get, PutCall: &c.Put}
}

// OpenCfg selects the open options.  CacheCap < 0 means no cache.
type OpenCfg struct {
	Preload  bool
	CacheCap int64
	// Twice: every selected option is passed twice (the same option value
	// again); a repeated option must not change anything.
	Twice bool
	// Via: the file is opened under another name for it (see Alias).
	Via int
}

func (o OpenCfg) String() string {
	s := "ondemand"
	if o.Preload {
		s = "preload"
	}
	if o.CacheCap >= 0 {
		s += fmt.Sprintf("+lru(%d)", o.CacheCap)
	}
	if o.Twice {
		s += " (each option given twice)"
	}
	if o.Via != ViaPlain {
		s += " via " + ViaName[o.Via]
	}
	return s
}

var (
	preloadShared = updog.WithPreloadedData()
	preloadCalls  atomic.Int64
)

// preloadOption: an option is a value a caller may create once and pass to
// any number of OpenIndex calls, so every other open receives the same
// preload option value as earlier opens (of other files), the rest a new one.
func preloadOption() updog.IndexOption {
	if preloadCalls.Add(1)%2 == 0 || os.Getenv("VERIF_REPLAY_FILE") != "" {
		return preloadShared
	}
	return updog.WithPreloadedData()
}

// Open opens an index with the given options.
func Open(path string, o OpenCfg) (idx *updog.Index, cc *CacheCounters, err error) {
	err = Safe(func() error {
		var opts []updog.IndexOption
		if o.Preload {
			opts = append(opts, preloadOption())
		}
		if o.CacheCap >= 0 {
			cc = &CacheCounters{}
			opts = append(opts, updog.WithCache(updog.NewLRUCache(uint64(o.CacheCap), updog.WithCacheMetrics(cc.Metrics()))))
		}
		if o.Twice {
			opts = append(opts, opts...)
		}
		if o.Via == ViaRelCwd {
			var e error
			idx, cc, e = openRelCwd(path, o)
			return e
		}
		if o.Via != ViaPlain {
			alias, _, aerr := Alias(path, o.Via)
			if aerr != nil {
				panic("INFRA: cannot create a path alias: " + aerr.Error())
			}
			path = alias
		}
		var e error
		idx, e = updog.OpenIndex(path, opts...)
		return e
	})
	return
}

// ToUpdog converts a model expression.
func ToUpdog(e model.Expr) updog.Expression {
	switch e.Op {
	case model.OpEq:
		return &updog.ExprEqual{Column: e.Col, Value: e.Val}
	case model.OpNot:
		return &updog.ExprNot{Expr: ToUpdog(e.Subs[0])}
	case model.OpAnd:
		x := &updog.ExprAnd{}
		for _, s := range e.Subs {
			x.Exprs = append(x.Exprs, ToUpdog(s))
		}
		return x
	case model.OpOr:
		x := &updog.ExprOr{}
		for _, s := range e.Subs {
			x.Exprs = append(x.Exprs, ToUpdog(s))
		}
		return x
	}
	panic("bad op")
}

func NewQuery(e model.Expr, groupBy []string) *updog.Query {
	return &updog.Query{Expr: ToUpdog(e), GroupBy: append([]string(nil), groupBy...)}
}

// FromResult converts an updog result into the model's shape.
func FromResult(r *updog.Result) model.Result {
	out := model.Result{Count: r.Count}
	for _, g := range r.Groups {
		mg := model.Group{Count: g.Count}
		for _, f := range g.Fields {
			mg.Cols = append(mg.Cols, f.Column)
			mg.Vals = append(mg.Vals, f.Value)
		}
		out.Groups = append(out.Groups, mg)
	}
	return out
}

// Exec runs one query under recover.
func Exec(idx *updog.Index, q *updog.Query) (res *updog.Result, err error) {
	err = Safe(func() error {
		var e error
		res, e = idx.Execute(q)
		return e
	})
	return
}

// CheckQuery executes (e, groupBy) on idx and compares with the model:
// rejected queries must return an error and a nil result, accepted ones the
// exact count and groups.
func CheckQuery(idx *updog.Index, d *model.Data, e model.Expr, groupBy []string) error {
	res, err := Exec(idx, NewQuery(e, groupBy))
	return CompareOutcome(d, e, groupBy, res, err)
}

func CompareOutcome(d *model.Data, e model.Expr, groupBy []string, res *updog.Result, err error) error {
	if IsPanic(err) {
		return err
	}
	if d.Rejects(e, groupBy) {
		if err == nil {
			return fmt.Errorf("query on a column that occurs in no row returned no error (result %+v)", res)
		}
		if res != nil {
			return fmt.Errorf("query on unknown column returned an error AND a result")
		}
		return nil
	}
	if err != nil {
		return fmt.Errorf("unexpected error: %v", err)
	}
	if res == nil {
		return fmt.Errorf("nil result without error")
	}
	got := FromResult(res)
	if err := model.DiffResult(got, d.Query(e, groupBy)); err != nil {
		return err
	}
	return model.ConsistentGroups(got, groupBy)
}

// CopyFile copies src to a fresh path in dir.
func CopyFile(dir, src string) (string, error) {
	dst := TempPath(dir, "copy") + ".updog"
	in, err := os.Open(src)
	if err != nil {
		return "", err
	}
	defer in.Close()
	out, err := os.Create(dst)
	if err != nil {
		return "", err
	}
	if _, err := io.Copy(out, in); err != nil {
		out.Close()
		return "", err
	}
	return dst, out.Close()
}

// CheckSchema compares the observable schema with the model's.
func CheckSchema(idx *updog.Index, d *model.Data) error {
	var sch *updog.Schema
	if err := Safe(func() error { sch = idx.GetSchema(); return nil }); err != nil {
		return err
	}
	want := d.Schema()
	if len(sch.Columns) != len(want) {
		return fmt.Errorf("schema: got %d columns want %d", len(sch.Columns), len(want))
	}
	for i, wc := range want {
		gc := sch.Columns[i]
		if gc.Name != wc.Name {
			return fmt.Errorf("schema column %d: got %+q want %+q", i, gc.Name, wc.Name)
		}
		if len(gc.Values) != len(wc.Values) {
			return fmt.Errorf("schema column %+q: got %d values want %d", wc.Name, len(gc.Values), len(wc.Values))
		}
		for j, wv := range wc.Values {
			if gc.Values[j].Value != wv {
				return fmt.Errorf("schema column %+q value %d: got %+q want %+q", wc.Name, j, gc.Values[j].Value, wv)
			}
		}
	}
	return nil
}

// SameExpr compares two expression trees by their caller-visible (exported)
// structure only: node kinds, columns, values, operand lists.  Unexported
// fields (an implementation may memoise things inside a node) do not count.
func SameExpr(a, b updog.Expression) bool {
	switch x := a.(type) {
	case *updog.ExprEqual:
		y, ok := b.(*updog.ExprEqual)
		return ok && (x == nil) == (y == nil) && (x == nil || (x.Column == y.Column && x.Value == y.Value))
	case *updog.ExprNot:
		y, ok := b.(*updog.ExprNot)
		return ok && (x == nil) == (y == nil) && (x == nil || SameExpr(x.Expr, y.Expr))
	case *updog.ExprAnd:
		y, ok := b.(*updog.ExprAnd)
		if !ok || (x == nil) != (y == nil) {
			return false
		}
		if x == nil {
			return true
		}
		return sameList(x.Exprs, y.Exprs)
	case *updog.ExprOr:
		y, ok := b.(*updog.ExprOr)
		if !ok || (x == nil) != (y == nil) {
			return false
		}
		if x == nil {
			return true
		}
		return sameList(x.Exprs, y.Exprs)
	case nil:
		return b == nil
	}
	return false
}

func sameList(a, b []updog.Expression) bool {
	if len(a) != len(b) {
		return false
	}
	for i := range a {
		if !SameExpr(a[i], b[i]) {
			return false
		}
	}
	return true
}

// Path aliases: ways of naming an existing file other than by its plain path.
const (
	ViaPlain   = iota
	ViaRelLink // a relative symbolic link beside the file
	ViaAbsLink // an absolute symbolic link beside the file
	ViaDotDot  // dir/../dir/file
	ViaLinkUp  // other/hop/../file where hop is a symbolic link to dir/sub: the
	// operating system resolves it to dir/file, cleaning the text gives other/file
	ViaRelCwd // the bare file name, relative to a working directory that Open
	// changes to the file's directory - after having opened, under the very same
	// relative name and still open, an index of OTHER content in another directory
	NVia
)

var ViaName = []string{"plain path", "relative symlink", "absolute symlink", "dir/../dir/file", "symlinked directory followed by ..", "relative name after a change of the working directory"}

// Alias returns a name of kind via for the file real (which need not exist
// yet), creating the links it needs; lexical is what a purely textual
// clean-up of the alias would name (only different from real for ViaLinkUp).
// Calling it again with the same arguments returns the same name.
func Alias(real string, via int) (alias, lexical string, err error) {
	dir, base := filepath.Dir(real), filepath.Base(real)
	mk := func(target, link string) error {
		if _, err := os.Lstat(link); err == nil {
			return nil
		}
		return os.Symlink(target, link)
	}
	switch via {
	case ViaRelLink:
		alias = real + ".rel-link"
		return alias, real, mk(base, alias)
	case ViaAbsLink:
		alias = real + ".abs-link"
		return alias, real, mk(real, alias)
	case ViaDotDot:
		return filepath.Dir(dir) + string(filepath.Separator) + filepath.Base(dir) + "/../" + filepath.Base(dir) + "/" + base, real, nil
	case ViaLinkUp:
		sub, other := filepath.Join(dir, "alias-sub"), filepath.Join(dir, "alias-other")
		if err := os.MkdirAll(sub, 0o755); err != nil {
			return "", "", err
		}
		if err := os.MkdirAll(other, 0o755); err != nil {
			return "", "", err
		}
		if err := mk(sub, filepath.Join(other, "hop")); err != nil {
			return "", "", err
		}
		return other + "/hop/../" + base, filepath.Join(other, base), nil
	}
	return real, real, nil
}

// openRelCwd opens path under its bare name from its own directory, after an
// index of other content was opened under the same bare name from another
// directory (and is still open): whatever is keyed by the name a caller
// passed must not confuse the two files.  The working directory is restored.
func openRelCwd(path string, o OpenCfg) (*updog.Index, *CacheCounters, error) {
	dir, base := filepath.Dir(path), filepath.Base(path)
	old, err := os.Getwd()
	if err != nil {
		panic("INFRA: " + err.Error())
	}
	defer os.Chdir(old)
	decoyDir := filepath.Join(dir, "alias-cwd")
	if err := os.MkdirAll(decoyDir, 0o755); err != nil {
		panic("INFRA: " + err.Error())
	}
	if _, err := os.Stat(filepath.Join(decoyDir, base)); err != nil {
		if _, err := BuildAt(filepath.Join(decoyDir, base), []model.Row{{"decoy": "yes"}, {"decoy": "yes", "other": "file"}}, WMemFile); err != nil {
			panic("INFRA: " + err.Error())
		}
	}
	mkopts := func() ([]updog.IndexOption, *CacheCounters) {
		var opts []updog.IndexOption
		var cc *CacheCounters
		if o.Preload {
			opts = append(opts, preloadOption())
		}
		if o.CacheCap >= 0 {
			cc = &CacheCounters{}
			opts = append(opts, updog.WithCache(updog.NewLRUCache(uint64(o.CacheCap), updog.WithCacheMetrics(cc.Metrics()))))
		}
		if o.Twice {
			opts = append(opts, opts...)
		}
		return opts, cc
	}
	if err := os.Chdir(decoyDir); err != nil {
		panic("INFRA: " + err.Error())
	}
	dopts, _ := mkopts()
	decoy, _ := updog.OpenIndex(base, dopts...)
	if decoy != nil {
		defer decoy.Close()
	}
	if err := os.Chdir(dir); err != nil {
		panic("INFRA: " + err.Error())
	}
	opts, cc := mkopts()
	idx, err := updog.OpenIndex(base, opts...)
	return idx, cc, err
}
