package fix

import (
	"github.com/akrennmair/updog/verifharness/model"

	pb "github.com/akrennmair/updog/proto/updog/v1"
)

// ToPB converts a model expression to the protobuf tree (literal values only).
func ToPB(e model.Expr) *pb.Query_Expression {
	switch e.Op {
	case model.OpEq:
		return &pb.Query_Expression{Value: &pb.Query_Expression_Eq{Eq: &pb.Query_Expression_Equal{Column: e.Col, Value: e.Val}}}
	case model.OpNot:
		return &pb.Query_Expression{Value: &pb.Query_Expression_Not_{Not: &pb.Query_Expression_Not{Expr: ToPB(e.Subs[0])}}}
	case model.OpAnd:
		x := &pb.Query_Expression_And{}
		for _, s := range e.Subs {
			x.Exprs = append(x.Exprs, ToPB(s))
		}
		return &pb.Query_Expression{Value: &pb.Query_Expression_And_{And: x}}
	case model.OpOr:
		x := &pb.Query_Expression_Or{}
		for _, s := range e.Subs {
			x.Exprs = append(x.Exprs, ToPB(s))
		}
		return &pb.Query_Expression{Value: &pb.Query_Expression_Or_{Or: x}}
	}
	panic("bad op")
}

func PBQuery(e model.Expr, groupBy []string, id int32) *pb.Query {
	return &pb.Query{Id: id, Expr: ToPB(e), GroupBy: append([]string(nil), groupBy...)}
}

// FromPBResult converts a protobuf result into the model's shape.
func FromPBResult(r *pb.Result) model.Result {
	out := model.Result{Count: r.GetTotalCount()}
	for _, g := range r.GetGroups() {
		mg := model.Group{Count: g.GetCount()}
		for _, f := range g.GetFields() {
			mg.Cols = append(mg.Cols, f.GetColumn())
			mg.Vals = append(mg.Vals, f.GetValue())
		}
		out.Groups = append(out.Groups, mg)
	}
	return out
}
