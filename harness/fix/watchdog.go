package fix

import (
	"encoding/csv"
	"os"
	"runtime"
	"strings"
	"time"

	"github.com/akrennmair/updog/verifharness/model"
)

// Watchdog runs f in its own goroutine (under recover).  If f does not return
// within d, a goroutine dump is taken: hung reports the dump when the
// goroutine running f is parked in a state named by one of the needles (a
// state that cannot make progress given what the harness set up, e.g.
// "syscall.Flock" on a file this very process still holds open); when it is
// merely slow, slow is true.  The goroutine is abandoned in both cases.
func Watchdog(d time.Duration, needles []string, f func() error) (err error, hung string, slow bool) {
	done := make(chan error, 1)
	go func() { done <- Safe(f) }()
	select {
	case e := <-done:
		return e, "", false
	case <-time.After(d):
	}
	buf := make([]byte, 1<<20)
	n := runtime.Stack(buf, true)
	dump := string(buf[:n])
	for _, g := range strings.Split(dump, "\n\n") {
		if !strings.Contains(g, "fix.Watchdog.func1") {
			continue
		}
		for _, nd := range needles {
			if strings.Contains(g, nd) {
				if len(g) > 3000 {
					g = g[:3000]
				}
				return nil, g, false
			}
		}
	}
	return nil, "", true
}

// WriteCSV writes a rectangular CSV (header = cols) with encoding/csv.
func WriteCSV(path string, cols []string, rows []model.Row) error {
	f, err := os.Create(path)
	if err != nil {
		return err
	}
	w := csv.NewWriter(f)
	if err := w.Write(cols); err != nil {
		return err
	}
	rec := make([]string, len(cols))
	for _, r := range rows {
		for i, c := range cols {
			rec[i] = r[c]
		}
		if err := w.Write(rec); err != nil {
			return err
		}
	}
	w.Flush()
	if err := w.Error(); err != nil {
		return err
	}
	return f.Close()
}
