package fix

import (
	"encoding/csv"
	"os"
	"runtime"
	"strings"
	"time"

	"github.com/akrennmair/updog/verifharness/model"
)

// Watchdog runs f in its own goroutine (under recover).  If f does not return
// within d, a goroutine dump is taken and every goroutine is matched against
// the needles: a needle is a '+'-separated conjunction of substrings, and a
// goroutine whose stack contains all substrings of some needle is parked in a
// state that cannot make progress given what the harness set up (e.g.
// "syscall.Flock+updog/driver" = waiting for a file lock this very process
// holds).  hung then carries that goroutine's stack.  When nothing matches,
// the action is merely slow (slow=true).  The goroutine is abandoned.
func Watchdog(d time.Duration, needles []string, f func() error) (err error, hung string, slow bool) {
	done := make(chan error, 1)
	go func() { done <- Safe(f) }()
	select {
	case e := <-done:
		return e, "", false
	case <-time.After(d):
	}
	// A goroutine that matches a needle (or a standstill of all library code)
	// only counts when it is found again, with the same stack, in a second dump
	// five seconds later: on a busy machine a step can simply be slow, and a
	// goroutine that waits for a lock for a moment looks exactly like one that
	// waits for ever.  Up to seven rounds; after that the verdict is "slow".
	buf := make([]byte, 8<<20)
	take := func() string { return string(buf[:runtime.Stack(buf, true)]) }
	matches := func(dump string) map[string]gor {
		out := map[string]gor{}
		for id, g := range parseDump(dump) {
			for _, nd := range needles {
				all := true
				for _, part := range strings.Split(nd, "+") {
					if !strings.Contains(g.text, part) {
						all = false
						break
					}
				}
				if all {
					out[id] = g
					break
				}
			}
		}
		return out
	}
	prev := take()
	prevMatch := matches(prev)
	for round := 0; round < 7; round++ {
		time.Sleep(5 * time.Second)
		select {
		case e := <-done:
			return e, "", false // it was merely slow
		default:
		}
		cur := take()
		curMatch := matches(cur)
		for id, g := range curMatch {
			if pg, ok := prevMatch[id]; ok && strings.Join(pg.funcs, "\n") == strings.Join(g.funcs, "\n") {
				txt := g.text
				if len(txt) > 3000 {
					txt = txt[:3000]
				}
				return nil, txt, false
			}
		}
		if g, ok := standstill(prev, cur); ok {
			return nil, g, false
		}
		prev, prevMatch = cur, curMatch
	}
	return nil, "", true
}

var libraryPkgs = []string{"github.com/akrennmair/updog.", "github.com/akrennmair/updog/internal/", "github.com/akrennmair/updog/driver.", "github.com/akrennmair/updog/cmd/", "go.etcd.io/bbolt", "github.com/RoaringBitmap/roaring"}

var parkedStates = []string{"chan send", "chan receive", "select", "semacquire", "sync.Mutex.Lock", "sync.RWMutex.RLock", "sync.RWMutex.Lock", "sync.WaitGroup.Wait", "sync.Cond.Wait"}

type gor struct {
	id, state string
	funcs     []string // function lines, innermost first
	text      string
}

func parseDump(dump string) map[string]gor {
	out := map[string]gor{}
	for _, blk := range strings.Split(dump, "\n\n") {
		lines := strings.Split(strings.TrimSpace(blk), "\n")
		if len(lines) == 0 || !strings.HasPrefix(lines[0], "goroutine ") {
			continue
		}
		head := lines[0]
		i, j := strings.Index(head, "["), strings.LastIndex(head, "]")
		if i < 0 || j < i {
			continue
		}
		g := gor{id: strings.Fields(head)[1], state: head[i+1 : j], text: blk}
		if k := strings.Index(g.state, ","); k >= 0 {
			g.state = g.state[:k] // drop "N minutes"
		}
		for _, l := range lines[1:] {
			if !strings.HasPrefix(l, "\t") && !strings.HasPrefix(l, "created by ") {
				g.funcs = append(g.funcs, l)
			}
		}
		out[g.id] = g
	}
	return out
}

func isLibrary(fn string) bool {
	if strings.Contains(fn, "/verifharness/") {
		return false
	}
	for _, p := range libraryPkgs {
		if strings.HasPrefix(fn, p) {
			return true
		}
	}
	return false
}

// standstill decides, from two dumps taken seconds apart, whether the action
// under the watchdog can never finish: the goroutine running it, and EVERY
// other goroutine that executes library code (updog, bbolt, roaring), is
// parked on a channel or lock operation issued by library code, with the same
// stack in both dumps.  Only such a goroutine could wake another one (the
// harness holds no library channel or lock, and none of these packages uses
// timers), so nothing ever will.  A goroutine with library frames that is
// running, in a system call, sleeping, or parked inside some other package
// (grpc, net, database/sql) makes the verdict "not provable".
func standstill(a, b string) (string, bool) { return standstillOf(a, b, "fix.Watchdog.func1") }

// Standstill takes two goroutine dumps 5 s apart and applies the standstill
// rule to the goroutines carrying marker in their stack.
func Standstill(marker string) (string, bool) {
	buf := make([]byte, 8<<20)
	n := runtime.Stack(buf, true)
	a := string(buf[:n])
	time.Sleep(5 * time.Second)
	n = runtime.Stack(buf, true)
	return standstillOf(a, string(buf[:n]), marker)
}

// standstillOf: marker names the frame that identifies the goroutine(s)
// running the action.
func standstillOf(a, b, marker string) (string, bool) {
	ga, gb := parseDump(a), parseDump(b)
	var action *gor
	for id, g := range gb {
		hasLib := false
		for _, fn := range g.funcs {
			if isLibrary(fn) {
				hasLib = true
				break
			}
		}
		if !hasLib {
			continue
		}
		parked := false
		for _, st := range parkedStates {
			if strings.HasPrefix(g.state, st) {
				parked = true
			}
		}
		if !parked {
			return "", false
		}
		// who issued the blocking operation: first frame outside runtime/sync
		issuer := ""
		for _, fn := range g.funcs {
			if strings.HasPrefix(fn, "runtime.") || strings.HasPrefix(fn, "sync.") || strings.HasPrefix(fn, "internal/") {
				continue
			}
			issuer = fn
			break
		}
		if !isLibrary(issuer) {
			return "", false
		}
		prev, ok := ga[id]
		if !ok || strings.Join(prev.funcs, "\n") != strings.Join(g.funcs, "\n") {
			return "", false
		}
		if strings.Contains(g.text, marker) {
			gg := g
			action = &gg
		}
	}
	if action == nil {
		return "", false
	}
	txt := action.text
	if len(txt) > 3000 {
		txt = txt[:3000]
	}
	return "every goroutine executing library code is parked on a channel or lock of the library, unchanged over 5 s; nobody is left to wake it:\n" + txt, true
}

// WriteCSV writes a rectangular CSV (header = cols) with encoding/csv.
func WriteCSV(path string, cols []string, rows []model.Row) error {
	f, err := os.Create(path)
	if err != nil {
		return err
	}
	w := csv.NewWriter(f)
	if err := w.Write(cols); err != nil {
		return err
	}
	rec := make([]string, len(cols))
	for _, r := range rows {
		for i, c := range cols {
			rec[i] = r[c]
		}
		if err := w.Write(rec); err != nil {
			return err
		}
	}
	w.Flush()
	if err := w.Error(); err != nil {
		return err
	}
	return f.Close()
}
