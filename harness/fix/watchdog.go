package fix

import (
	"encoding/csv"
	"os"
	"runtime"
	"strings"
	"time"

	"github.com/akrennmair/updog/verifharness/model"
)

// Watchdog runs f in its own goroutine (under recover).  If f does not return
// within d, a goroutine dump is taken and every goroutine is matched against
// the needles: a needle is a '+'-separated conjunction of substrings, and a
// goroutine whose stack contains all substrings of some needle is parked in a
// state that cannot make progress given what the harness set up (e.g.
// "syscall.Flock+updog/driver" = waiting for a file lock this very process
// holds).  hung then carries that goroutine's stack.  When nothing matches,
// the action is merely slow (slow=true).  The goroutine is abandoned.
func Watchdog(d time.Duration, needles []string, f func() error) (err error, hung string, slow bool) {
	done := make(chan error, 1)
	go func() { done <- Safe(f) }()
	select {
	case e := <-done:
		return e, "", false
	case <-time.After(d):
	}
	buf := make([]byte, 4<<20)
	n := runtime.Stack(buf, true)
	dump := string(buf[:n])
	for _, g := range strings.Split(dump, "\n\n") {
		for _, nd := range needles {
			all := true
			for _, part := range strings.Split(nd, "+") {
				if !strings.Contains(g, part) {
					all = false
					break
				}
			}
			if all {
				if len(g) > 3000 {
					g = g[:3000]
				}
				return nil, g, false
			}
		}
	}
	return nil, "", true
}

// WriteCSV writes a rectangular CSV (header = cols) with encoding/csv.
func WriteCSV(path string, cols []string, rows []model.Row) error {
	f, err := os.Create(path)
	if err != nil {
		return err
	}
	w := csv.NewWriter(f)
	if err := w.Write(cols); err != nil {
		return err
	}
	rec := make([]string, len(cols))
	for _, r := range rows {
		for i, c := range cols {
			rec[i] = r[c]
		}
		if err := w.Write(rec); err != nil {
			return err
		}
	}
	w.Flush()
	if err := w.Error(); err != nil {
		return err
	}
	return f.Close()
}
