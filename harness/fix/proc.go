package fix

import (
	"bytes"
	"context"
	"fmt"
	"os"
	"os/exec"
	"strings"
	"sync"
	"syscall"
	"time"

	pb "github.com/akrennmair/updog/proto/updog/v1"
	"google.golang.org/grpc"
	"google.golang.org/grpc/credentials/insecure"
)

// UpdogBin returns the path of the CLI binary the driver built from /repo's
// working tree.
func UpdogBin() string {
	b := os.Getenv("VERIF_UPDOG_BIN")
	if b == "" {
		panic("VERIF_UPDOG_BIN not set: this check must be run through ./check")
	}
	return b
}

type lockedBuf struct {
	mu sync.Mutex
	b  bytes.Buffer
}

func (l *lockedBuf) Write(p []byte) (int, error) {
	l.mu.Lock()
	defer l.mu.Unlock()
	if l.b.Len() < 1<<20 {
		l.b.Write(p)
	}
	return len(p), nil
}

func (l *lockedBuf) String() string { l.mu.Lock(); defer l.mu.Unlock(); return l.b.String() }

// Server is a running `updog server` process plus a connected client.
type Server struct {
	Cmd    *exec.Cmd
	Addr   string
	Conn   *grpc.ClientConn
	Client pb.QueryServiceClient
	out    *lockedBuf
	done   chan struct{}
	werr   error
}

// listenPorts returns the TCP ports on which process pid listens (found
// through its socket inodes in /proc), so that the harness never has to guess
// a free port: the server is started on port 0 and asked where it ended up.
func listenPorts(pid int) []int {
	inodes := map[string]bool{}
	fds, _ := os.ReadDir(fmt.Sprintf("/proc/%d/fd", pid))
	for _, fd := range fds {
		l, err := os.Readlink(fmt.Sprintf("/proc/%d/fd/%s", pid, fd.Name()))
		if err == nil && strings.HasPrefix(l, "socket:[") {
			inodes[strings.TrimSuffix(strings.TrimPrefix(l, "socket:["), "]")] = true
		}
	}
	var ports []int
	for _, f := range []string{"/proc/net/tcp", "/proc/net/tcp6"} {
		b, err := os.ReadFile(f)
		if err != nil {
			continue
		}
		for _, line := range strings.Split(string(b), "\n")[1:] {
			fs := strings.Fields(line)
			if len(fs) < 10 || fs[3] != "0A" || !inodes[fs[9]] {
				continue
			}
			k := strings.LastIndexByte(fs[1], ':')
			var port int
			if _, err := fmt.Sscanf(fs[1][k+1:], "%X", &port); err == nil {
				ports = append(ports, port)
			}
		}
	}
	return ports
}

// StartServer starts `updog server` for the given index file (use a private
// copy: the server holds a file lock) on kernel-chosen loopback ports and
// waits until the gRPC port of THIS process answers.  extra are additional
// CLI flags, e.g. "-c=false", "-p", or environment settings "env:KEY=VALUE".
func StartServer(index string, extra ...string) (*Server, error) {
	args := []string{"server", "-l", "127.0.0.1:0", "-d", "127.0.0.1:0", "-f", index}
	env := append(os.Environ(), "GORACE=halt_on_error=1 exitcode=66")
	for _, e := range extra {
		// "env:KEY=VALUE" sets the server's environment instead of a flag
		if strings.HasPrefix(e, "env:") {
			env = append(env, e[4:])
		} else if strings.HasPrefix(e, "listen:") {
			args[2] = e[7:] // a fixed gRPC address instead of a kernel-chosen port
		} else {
			args = append(args, e)
		}
	}
	cmd := exec.Command(UpdogBin(), args...)
	out := &lockedBuf{}
	cmd.Stdout, cmd.Stderr = out, out
	cmd.Env = env
	if err := cmd.Start(); err != nil {
		return nil, err
	}
	s := &Server{Cmd: cmd, out: out, done: make(chan struct{})}
	go func() { s.werr = cmd.Wait(); close(s.done) }()
	var lastErr error
	tried := map[int]bool{}
	for i := 0; i < 1500 && s.Alive(); i++ {
		for _, port := range listenPorts(cmd.Process.Pid) {
			if tried[port] {
				continue
			}
			addr := fmt.Sprintf("127.0.0.1:%d", port)
			conn, err := grpc.NewClient(addr, grpc.WithTransportCredentials(insecure.NewCredentials()),
				grpc.WithDefaultCallOptions(grpc.MaxCallRecvMsgSize(256<<20), grpc.MaxCallSendMsgSize(256<<20)))
			if err != nil {
				lastErr = err
				continue
			}
			client := pb.NewQueryServiceClient(conn)
			ctx, cancel := context.WithTimeout(context.Background(), 2*time.Second)
			_, err = client.Query(ctx, &pb.QueryRequest{})
			cancel()
			if err == nil {
				s.Addr, s.Conn, s.Client = addr, conn, client
				return s, nil
			}
			// not the gRPC port (the debug HTTP listener), or not ready yet
			lastErr = err
			conn.Close()
			if strings.Contains(err.Error(), "Unavailable") || strings.Contains(err.Error(), "DeadlineExceeded") {
				tried[port] = true
			}
		}
		time.Sleep(10 * time.Millisecond)
	}
	err := fmt.Errorf("server not ready (alive=%v, last rpc error %v): %s", s.Alive(), lastErr, s.Output())
	s.Stop()
	return nil, err
}

func (s *Server) Alive() bool {
	select {
	case <-s.done:
		return false
	default:
		return true
	}
}

// WaitExit waits up to d for the process to exit; reports whether it did.
func (s *Server) WaitExit(d time.Duration) bool {
	select {
	case <-s.done:
		return true
	case <-time.After(d):
		return false
	}
}

func (s *Server) Output() string { return s.out.String() }

func (s *Server) ExitInfo() string {
	if s.Alive() {
		return "still running"
	}
	return fmt.Sprintf("%v", s.werr)
}

func (s *Server) Stop() {
	if s.Conn != nil {
		s.Conn.Close()
	}
	if s.Alive() {
		s.Cmd.Process.Signal(syscall.SIGKILL)
		<-s.done
	}
}

// Query sends one batch with a deadline.
func (s *Server) Query(req *pb.QueryRequest, d time.Duration) (*pb.QueryResponse, error) {
	ctx, cancel := context.WithTimeout(context.Background(), d)
	defer cancel()
	return s.Client.Query(ctx, req)
}

// RunCLI runs the CLI to completion with a watchdog.  hung is true when the
// process had to be killed after the watchdog elapsed AND made no CPU
// progress over the last samples (all threads parked): a deadlock rather than
// slowness.  slow is true when it was killed while still burning CPU.
type CLIResult struct {
	Exit   int
	Out    string
	Hung   bool
	Slow   bool
	Killed bool
}

func RunCLI(dir string, watchdog time.Duration, env []string, args ...string) CLIResult {
	cmd := exec.Command(UpdogBin(), args...)
	cmd.Dir = dir
	out := &lockedBuf{}
	cmd.Stdout, cmd.Stderr = out, out
	cmd.Env = append(os.Environ(), env...)
	if err := cmd.Start(); err != nil {
		return CLIResult{Exit: -1, Out: err.Error()}
	}
	done := make(chan error, 1)
	go func() { done <- cmd.Wait() }()
	var res CLIResult
	select {
	case err := <-done:
		res.Exit = exitCode(err)
	case <-time.After(watchdog):
		// distinguish deadlock from slowness: CPU time must stand still
		t1 := cpuTicks(cmd.Process.Pid)
		select {
		case err := <-done:
			res.Exit = exitCode(err)
			res.Out = out.String()
			return res
		case <-time.After(3 * time.Second):
		}
		t2 := cpuTicks(cmd.Process.Pid)
		select {
		case err := <-done:
			res.Exit = exitCode(err)
			res.Out = out.String()
			return res
		case <-time.After(3 * time.Second):
		}
		t3 := cpuTicks(cmd.Process.Pid)
		res.Killed = true
		if t1 >= 0 && t1 == t2 && t2 == t3 {
			res.Hung = true
		} else {
			res.Slow = true
		}
		cmd.Process.Kill()
		<-done
		res.Exit = -9
	}
	res.Out = out.String()
	return res
}

func exitCode(err error) int {
	if err == nil {
		return 0
	}
	if ee, ok := err.(*exec.ExitError); ok {
		return ee.ExitCode()
	}
	return -1
}

// cpuTicks returns utime+stime of a process (clock ticks), -1 if unreadable.
func cpuTicks(pid int) int64 {
	b, err := os.ReadFile(fmt.Sprintf("/proc/%d/stat", pid))
	if err != nil {
		return -1
	}
	s := string(b)
	i := strings.LastIndexByte(s, ')')
	if i < 0 {
		return -1
	}
	f := strings.Fields(s[i+1:])
	if len(f) < 13 {
		return -1
	}
	var ut, st int64
	fmt.Sscan(f[11], &ut)
	fmt.Sscan(f[12], &st)
	return ut + st
}
