package fix

import (
	"bytes"
	"context"
	"fmt"
	"net"
	"os"
	"os/exec"
	"strings"
	"sync"
	"syscall"
	"time"

	pb "github.com/akrennmair/updog/proto/updog/v1"
	"google.golang.org/grpc"
	"google.golang.org/grpc/credentials/insecure"
)

// UpdogBin returns the path of the CLI binary the driver built from /repo's
// working tree.
func UpdogBin() string {
	b := os.Getenv("VERIF_UPDOG_BIN")
	if b == "" {
		panic("VERIF_UPDOG_BIN not set: this check must be run through ./check")
	}
	return b
}

type lockedBuf struct {
	mu sync.Mutex
	b  bytes.Buffer
}

func (l *lockedBuf) Write(p []byte) (int, error) {
	l.mu.Lock()
	defer l.mu.Unlock()
	if l.b.Len() < 1<<20 {
		l.b.Write(p)
	}
	return len(p), nil
}

func (l *lockedBuf) String() string { l.mu.Lock(); defer l.mu.Unlock(); return l.b.String() }

// Server is a running `updog server` process plus a connected client.
type Server struct {
	Cmd    *exec.Cmd
	Addr   string
	Conn   *grpc.ClientConn
	Client pb.QueryServiceClient
	out    *lockedBuf
	done   chan struct{}
	werr   error
}

func freePort() (int, error) {
	l, err := net.Listen("tcp", "127.0.0.1:0")
	if err != nil {
		return 0, err
	}
	p := l.Addr().(*net.TCPAddr).Port
	l.Close()
	return p, nil
}

// StartServer starts `updog server` on a free loopback port for the given
// index file (use a private copy: the server holds the file lock) and waits
// until it answers.  extra are additional CLI flags, e.g. "-c=false", "-p".
func StartServer(index string, extra ...string) (*Server, error) {
	var lastErr error
	for attempt := 0; attempt < 5; attempt++ {
		port, err := freePort()
		if err != nil {
			return nil, err
		}
		addr := fmt.Sprintf("127.0.0.1:%d", port)
		args := append([]string{"server", "-l", addr, "-d", "127.0.0.1:0", "-f", index}, extra...)
		cmd := exec.Command(UpdogBin(), args...)
		out := &lockedBuf{}
		cmd.Stdout, cmd.Stderr = out, out
		cmd.Env = append(os.Environ(), "GORACE=halt_on_error=1 exitcode=66")
		if err := cmd.Start(); err != nil {
			return nil, err
		}
		s := &Server{Cmd: cmd, Addr: addr, out: out, done: make(chan struct{})}
		go func() { s.werr = cmd.Wait(); close(s.done) }()
		// wait for the listener before creating the client (a refused first
		// connection attempt would put the gRPC client into a 1 s back-off)
		for i := 0; i < 400 && s.Alive(); i++ {
			if nc, derr := net.DialTimeout("tcp", addr, time.Second); derr == nil {
				nc.Close()
				break
			}
			time.Sleep(10 * time.Millisecond)
		}
		conn, err := grpc.NewClient(addr, grpc.WithTransportCredentials(insecure.NewCredentials()),
			grpc.WithDefaultCallOptions(grpc.MaxCallRecvMsgSize(256<<20), grpc.MaxCallSendMsgSize(256<<20)))
		if err != nil {
			s.Stop()
			return nil, err
		}
		s.Conn, s.Client = conn, pb.NewQueryServiceClient(conn)
		ready := false
		for i := 0; i < 200 && s.Alive(); i++ {
			ctx, cancel := context.WithTimeout(context.Background(), 2*time.Second)
			_, err := s.Client.Query(ctx, &pb.QueryRequest{})
			cancel()
			if err == nil {
				ready = true
				break
			}
			lastErr = err
			time.Sleep(25 * time.Millisecond)
		}
		if ready {
			return s, nil
		}
		lastErr = fmt.Errorf("server not ready (alive=%v, last rpc error %v): %s", s.Alive(), lastErr, s.Output())
		s.Stop()
		if !strings.Contains(s.Output(), "address already in use") {
			break
		}
	}
	return nil, lastErr
}

func (s *Server) Alive() bool {
	select {
	case <-s.done:
		return false
	default:
		return true
	}
}

// WaitExit waits up to d for the process to exit; reports whether it did.
func (s *Server) WaitExit(d time.Duration) bool {
	select {
	case <-s.done:
		return true
	case <-time.After(d):
		return false
	}
}

func (s *Server) Output() string { return s.out.String() }

func (s *Server) ExitInfo() string {
	if s.Alive() {
		return "still running"
	}
	return fmt.Sprintf("%v", s.werr)
}

func (s *Server) Stop() {
	if s.Conn != nil {
		s.Conn.Close()
	}
	if s.Alive() {
		s.Cmd.Process.Signal(syscall.SIGKILL)
		<-s.done
	}
}

// Query sends one batch with a deadline.
func (s *Server) Query(req *pb.QueryRequest, d time.Duration) (*pb.QueryResponse, error) {
	ctx, cancel := context.WithTimeout(context.Background(), d)
	defer cancel()
	return s.Client.Query(ctx, req)
}

// RunCLI runs the CLI to completion with a watchdog.  hung is true when the
// process had to be killed after the watchdog elapsed AND made no CPU
// progress over the last samples (all threads parked): a deadlock rather than
// slowness.  slow is true when it was killed while still burning CPU.
type CLIResult struct {
	Exit   int
	Out    string
	Hung   bool
	Slow   bool
	Killed bool
}

func RunCLI(dir string, watchdog time.Duration, env []string, args ...string) CLIResult {
	cmd := exec.Command(UpdogBin(), args...)
	cmd.Dir = dir
	out := &lockedBuf{}
	cmd.Stdout, cmd.Stderr = out, out
	cmd.Env = append(os.Environ(), env...)
	if err := cmd.Start(); err != nil {
		return CLIResult{Exit: -1, Out: err.Error()}
	}
	done := make(chan error, 1)
	go func() { done <- cmd.Wait() }()
	var res CLIResult
	select {
	case err := <-done:
		res.Exit = exitCode(err)
	case <-time.After(watchdog):
		// distinguish deadlock from slowness: CPU time must stand still
		t1 := cpuTicks(cmd.Process.Pid)
		select {
		case err := <-done:
			res.Exit = exitCode(err)
			res.Out = out.String()
			return res
		case <-time.After(3 * time.Second):
		}
		t2 := cpuTicks(cmd.Process.Pid)
		select {
		case err := <-done:
			res.Exit = exitCode(err)
			res.Out = out.String()
			return res
		case <-time.After(3 * time.Second):
		}
		t3 := cpuTicks(cmd.Process.Pid)
		res.Killed = true
		if t1 >= 0 && t1 == t2 && t2 == t3 {
			res.Hung = true
		} else {
			res.Slow = true
		}
		cmd.Process.Kill()
		<-done
		res.Exit = -9
	}
	res.Out = out.String()
	return res
}

func exitCode(err error) int {
	if err == nil {
		return 0
	}
	if ee, ok := err.(*exec.ExitError); ok {
		return ee.ExitCode()
	}
	return -1
}

// cpuTicks returns utime+stime of a process (clock ticks), -1 if unreadable.
func cpuTicks(pid int) int64 {
	b, err := os.ReadFile(fmt.Sprintf("/proc/%d/stat", pid))
	if err != nil {
		return -1
	}
	s := string(b)
	i := strings.LastIndexByte(s, ')')
	if i < 0 {
		return -1
	}
	f := strings.Fields(s[i+1:])
	if len(f) < 13 {
		return -1
	}
	var ut, st int64
	fmt.Sscan(f[11], &ut)
	fmt.Sscan(f[12], &st)
	return ut + st
}
