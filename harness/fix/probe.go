package fix

import (
	"fmt"

	"github.com/akrennmair/updog"
	"github.com/akrennmair/updog/verifharness/model"
)

// ProbeOpts bounds the systematic probe set.
type ProbeOpts struct {
	Unique    string // name of a unique-per-row, always-present column ("" = none)
	MaxValues int    // per-(column,value) probes (0 = 4000); beyond that values are strided
	MaxRows   int    // per-row membership probes (0 = 4000); beyond that rows are strided
	Extra     []model.Expr
	ExtraGB   [][]string // group-by lists evaluated under a tautology
}

// ProbeAll compares everything observable about an open index with the model:
// schema, universe size, every (column,value) count, exact row membership
// through the unique column, extra expressions and group-bys.
func ProbeAll(idx *updog.Index, d *model.Data, o ProbeOpts) error {
	if o.MaxValues == 0 {
		o.MaxValues = 4000
	}
	if o.MaxRows == 0 {
		o.MaxRows = 4000
	}
	if err := CheckSchema(idx, d); err != nil {
		return err
	}
	cols := d.Columns()
	n := uint64(len(d.Rows))
	count := func(e model.Expr) (uint64, error) {
		res, err := Exec(idx, NewQuery(e, nil))
		if err != nil {
			return 0, fmt.Errorf("%s: %v", e.String(), err)
		}
		return res.Count, nil
	}
	if len(cols) > 0 {
		taut := model.Not(model.Eq(cols[0], "\x01never\x02"))
		got, err := count(taut)
		if err != nil {
			return err
		}
		if got != n {
			return fmt.Errorf("row universe: NOT(%+q=absent) counts %d rows, %d rows were added", cols[0], got, n)
		}
		for _, gb := range o.ExtraGB {
			if err := CheckQuery(idx, d, taut, gb); err != nil {
				return fmt.Errorf("group by %+q: %v", gb, err)
			}
		}
	}
	total := d.DistinctValues()
	stride := 1
	if total > o.MaxValues {
		stride = total/o.MaxValues + 1
	}
	k := 0
	type cv struct{ c, v string }
	var first []cv // the first values asked for are asked for again after all the others
	for _, c := range cols {
		for _, v := range d.Values(c) {
			k++
			if k%stride != 0 && k != 1 {
				continue
			}
			got, err := count(model.Eq(c, v))
			if err != nil {
				return err
			}
			if want := uint64(d.ValueCount(c, v)); got != want {
				return fmt.Errorf("%+q=%+q holds for %d rows, was added to %d", c, v, got, want)
			}
			if len(first) < 300 {
				first = append(first, cv{c, v})
			}
		}
	}
	for _, x := range first {
		got, err := count(model.Eq(x.c, x.v))
		if err != nil {
			return err
		}
		if want := uint64(d.ValueCount(x.c, x.v)); got != want {
			return fmt.Errorf("asked again after %d other values: %+q=%+q holds for %d rows, was added to %d", k, x.c, x.v, got, want)
		}
	}
	if o.Unique != "" && d.HasColumn(o.Unique) {
		rstride := 1
		if len(d.Rows) > o.MaxRows {
			rstride = len(d.Rows)/o.MaxRows + 1
		}
		for i := 0; i < len(d.Rows); i += rstride {
			r := d.Rows[i]
			if _, tagged := r[o.Unique]; !tagged {
				continue // a row without the tag (e.g. without any value) is only visible in the universe count
			}
			u := model.Eq(o.Unique, r[o.Unique])
			got, err := count(u)
			if err != nil {
				return err
			}
			if got != 1 {
				return fmt.Errorf("row %d: unique tag %+q holds for %d rows", i, r[o.Unique], got)
			}
			for c, v := range r {
				if c == o.Unique {
					continue
				}
				got, err := count(model.And(u, model.Eq(c, v)))
				if err != nil {
					return err
				}
				if got != 1 {
					return fmt.Errorf("row %d (tag %+q): %+q=%+q is not on the row of its tag (count %d)", i, r[o.Unique], c, v, got)
				}
			}
		}
	}
	for _, e := range o.Extra {
		if err := CheckQuery(idx, d, e, nil); err != nil {
			return fmt.Errorf("%s: %v", e.String(), err)
		}
	}
	return nil
}
