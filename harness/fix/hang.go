package fix

import (
	"fmt"
	"os"
	"runtime"
	"sync"
	"sync/atomic"
	"time"

	"github.com/akrennmair/updog/verifharness/evid"
)

// The hang monitor is the deadlock oracle of the checks that call the library
// sequentially, without a Watchdog of their own.  Every library call made
// through Safe is counted; when calls are active and none has started or
// finished for hangAfter, two goroutine dumps 5 s apart are judged with the
// standstill rule (see Watchdog).  A proven standstill writes the case that
// Track registered and ends the process; anything else is left alone (a
// merely slow call finishes, a test deadline reports the rest as
// INCONCLUSIVE).

const hangAfter = 45 * time.Second

var (
	activeCalls atomic.Int64
	lastEvent   atomic.Int64
	trackMu     sync.Mutex
	tracked     struct {
		prop, sub, summary string
		kase               any
	}
	monitorOnce sync.Once
)

func callEnter() { activeCalls.Add(1); lastEvent.Store(time.Now().UnixNano()) }
func callExit()  { activeCalls.Add(-1); lastEvent.Store(time.Now().UnixNano()) }

// Track registers the case that is being executed (no encoding happens unless
// it is needed); the returned function unregisters it.
func Track(prop, sub string, kase any, summary string) func() {
	trackMu.Lock()
	tracked.prop, tracked.sub, tracked.kase, tracked.summary = prop, sub, kase, summary
	trackMu.Unlock()
	return func() {
		trackMu.Lock()
		tracked.kase = nil
		trackMu.Unlock()
	}
}

func startHangMonitor() {
	monitorOnce.Do(func() {
		go func() {
			buf := make([]byte, 8<<20)
			for {
				time.Sleep(3 * time.Second)
				if activeCalls.Load() <= 0 {
					continue
				}
				ev := lastEvent.Load()
				if time.Since(time.Unix(0, ev)) < hangAfter {
					continue
				}
				n := runtime.Stack(buf, true)
				a := string(buf[:n])
				time.Sleep(5 * time.Second)
				if lastEvent.Load() != ev {
					continue
				}
				n = runtime.Stack(buf, true)
				g, ok := standstillOf(a, string(buf[:n]), "verifharness/fix.Safe")
				if !ok {
					continue
				}
				trackMu.Lock()
				k, prop, sub, sum := tracked.kase, tracked.prop, tracked.sub, tracked.summary
				trackMu.Unlock()
				if k != nil {
					p := evid.WriteCase(prop, sub, k, sum, fmt.Errorf("a library call does not return: %s", g))
					fmt.Fprintf(os.Stderr, "property %s/%s violated: a library call does not return (%s)\nreplay file: %s\n", prop, sub, clip(g, 1500), p)
					evid.Flush()
					os.Exit(1)
				}
				fmt.Fprintf(os.Stderr, "fatal error: HANG: a library call does not return and no case is registered: %s\n", clip(g, 3000))
				os.Exit(3)
			}
		}()
	})
}

// FDCount returns the number of open file descriptors of process pid (0 =
// this process), or -1 when it cannot be read.
func FDCount(pid int) int {
	dir := "/proc/self/fd"
	if pid > 0 {
		dir = fmt.Sprintf("/proc/%d/fd", pid)
	}
	ents, err := os.ReadDir(dir)
	if err != nil {
		return -1
	}
	return len(ents)
}
