package fix

import (
	"fmt"
	"os"
	"path/filepath"
	"runtime"
	"runtime/debug"
	"strings"
	"sync"
	"sync/atomic"
	"time"

	"github.com/akrennmair/updog/verifharness/evid"
)

// The hang monitor is the deadlock oracle of the checks that call the library
// sequentially, without a Watchdog of their own.  Every library call made
// through Safe is counted; when calls are active and none has started or
// finished for hangAfter, two goroutine dumps 5 s apart are judged with the
// standstill rule (see Watchdog).  A proven standstill writes the case that
// Track registered and ends the process; anything else is left alone (a
// merely slow call finishes, a test deadline reports the rest as
// INCONCLUSIVE).

const hangAfter = 45 * time.Second

var (
	activeCalls atomic.Int64
	lastEvent   atomic.Int64
	trackMu     sync.Mutex
	tracked     struct {
		prop, sub, summary string
		kase               any
	}
	last        = tracked // the most recent registered case (kept after it ends)
	monitorOnce sync.Once
)

// Orphans counts goroutines that library code started (their outermost frame
// is a library function), that are parked on a channel or lock operation, and
// that look the same in two dumps 300 ms apart.  Between two cases of a
// sequential sub-check nothing of the library is running, so every such
// goroutine was left behind by an earlier call.
func Orphans() (int, string) {
	buf := make([]byte, 8<<20)
	a := parseDump(string(buf[:runtime.Stack(buf, true)]))
	time.Sleep(300 * time.Millisecond)
	b := parseDump(string(buf[:runtime.Stack(buf, true)]))
	n, sample := 0, ""
	for id, g := range b {
		if len(g.funcs) == 0 || !isLibrary(g.funcs[len(g.funcs)-1]) {
			continue
		}
		parked := false
		for _, st := range parkedStates {
			if strings.HasPrefix(g.state, st) {
				parked = true
			}
		}
		prev, ok := a[id]
		if !parked || !ok || strings.Join(prev.funcs, "\n") != strings.Join(g.funcs, "\n") {
			continue
		}
		n++
		if sample == "" {
			sample = g.text
		}
	}
	return n, sample
}

// orphanLimit: more library-started goroutines than this, left parked after a
// case has ended, is reported (the unchanged tree leaves none).
const orphanLimit = 24

// leakAfterCase is called by Check after every case of a sub-check.
func leakAfterCase(rt interface{ Fatalf(string, ...any) }, sub string, baseline int) {
	if runtime.NumGoroutine() < baseline+orphanLimit {
		return
	}
	n, sample := Orphans()
	if n < orphanLimit {
		return
	}
	trackMu.Lock()
	l := last
	trackMu.Unlock()
	err := fmt.Errorf("%d goroutines started by the library are still parked after the calls that started them have returned (they accumulated over the cases of this sub-check; the case below is the last one run), e.g.:\n%s", n, clip(sample, 1500))
	if l.kase != nil && l.prop != "" {
		p := evid.WriteCase(l.prop, l.sub, l.kase, l.summary, err)
		rt.Fatalf("property %s/%s violated: %v\nreplay file: %s", l.prop, l.sub, err, p)
	}
	prop := strings.ToUpper(strings.TrimSuffix(filepath.Base(os.Args[0]), ".test")) // c04.test -> C04
	p := evid.WriteCase(prop, sub, struct{ Note string }{"goroutine leak"}, "goroutines left behind", err)
	rt.Fatalf("property %s/%s violated: %v\nreplay file: %s", prop, sub, err, p)
}

func callEnter() { activeCalls.Add(1); lastEvent.Store(time.Now().UnixNano()) }
func callExit()  { activeCalls.Add(-1); lastEvent.Store(time.Now().UnixNano()) }

// Track registers the case that is being executed (no encoding happens unless
// it is needed); the returned function unregisters it.
func Track(prop, sub string, kase any, summary string) func() {
	trackMu.Lock()
	tracked.prop, tracked.sub, tracked.kase, tracked.summary = prop, sub, kase, summary
	last = tracked
	trackMu.Unlock()
	return func() {
		trackMu.Lock()
		tracked.kase = nil
		trackMu.Unlock()
	}
}

func startHangMonitor() {
	monitorOnce.Do(func() {
		go func() {
			buf := make([]byte, 8<<20)
			for {
				time.Sleep(3 * time.Second)
				if activeCalls.Load() <= 0 {
					continue
				}
				ev := lastEvent.Load()
				if time.Since(time.Unix(0, ev)) < hangAfter {
					continue
				}
				n := runtime.Stack(buf, true)
				a := string(buf[:n])
				time.Sleep(5 * time.Second)
				if lastEvent.Load() != ev {
					continue
				}
				n = runtime.Stack(buf, true)
				g, ok := standstillOf(a, string(buf[:n]), "verifharness/fix.Safe")
				if !ok {
					continue
				}
				trackMu.Lock()
				k, prop, sub, sum := tracked.kase, tracked.prop, tracked.sub, tracked.summary
				trackMu.Unlock()
				if k != nil {
					p := evid.WriteCase(prop, sub, k, sum, fmt.Errorf("a library call does not return: %s", g))
					fmt.Fprintf(os.Stderr, "property %s/%s violated: a library call does not return (%s)\nreplay file: %s\n", prop, sub, clip(g, 1500), p)
					evid.Flush()
					os.Exit(1)
				}
				fmt.Fprintf(os.Stderr, "fatal error: HANG: a library call does not return and no case is registered: %s\n", clip(g, 3000))
				os.Exit(3)
			}
		}()
	})
}

// NoGC switches the garbage collector off until the returned function is
// called: a file that is no longer referenced is closed by its finalizer at
// some later collection, which would hide descriptors a failing call left open.
func NoGC() func() {
	old := debug.SetGCPercent(-1)
	return func() { debug.SetGCPercent(old) }
}

// FDCount returns the number of open file descriptors of process pid (0 =
// this process), or -1 when it cannot be read.
func FDCount(pid int) int {
	dir := "/proc/self/fd"
	if pid > 0 {
		dir = fmt.Sprintf("/proc/%d/fd", pid)
	}
	ents, err := os.ReadDir(dir)
	if err != nil {
		return -1
	}
	return len(ents)
}
