package fix

import (
	"database/sql"
	"fmt"

	"github.com/akrennmair/updog/verifharness/model"
)

// SQLRows is everything database/sql reports for one query.
type SQLRows struct {
	Cols  []string
	Types []string
	Rows  [][]any
}

// ScanAll drains rows (scanning every column into an interface value, so
// that NULLs and unexpected types stay visible) and closes them.
func ScanAll(rows *sql.Rows) (*SQLRows, error) {
	defer rows.Close()
	out := &SQLRows{}
	var err error
	if out.Cols, err = rows.Columns(); err != nil {
		return nil, fmt.Errorf("Columns: %w", err)
	}
	cts, err := rows.ColumnTypes()
	if err != nil {
		return nil, fmt.Errorf("ColumnTypes: %w", err)
	}
	for _, ct := range cts {
		out.Types = append(out.Types, ct.DatabaseTypeName())
	}
	for rows.Next() {
		vals := make([]any, len(out.Cols))
		ptrs := make([]any, len(out.Cols))
		for i := range vals {
			ptrs[i] = &vals[i]
		}
		if err := rows.Scan(ptrs...); err != nil {
			return nil, fmt.Errorf("Scan: %w", err)
		}
		out.Rows = append(out.Rows, vals)
	}
	if err := rows.Err(); err != nil {
		return nil, fmt.Errorf("rows.Err: %w", err)
	}
	return out, nil
}

// CheckRows compares what the driver returned with what the library result
// (the model) prescribes for a query with the given group-by list.
func CheckRows(r *SQLRows, groupBy []string, want model.Result) error {
	if len(r.Cols) != len(groupBy)+1 {
		return fmt.Errorf("columns %q, want the %d group-by columns followed by \"count\"", r.Cols, len(groupBy))
	}
	for i, g := range groupBy {
		if r.Cols[i] != g {
			return fmt.Errorf("column %d is named %q, want %q", i, r.Cols[i], g)
		}
		if r.Types[i] != "TEXT" {
			return fmt.Errorf("column %d (%q) has type %q, want TEXT", i, g, r.Types[i])
		}
	}
	if r.Cols[len(groupBy)] != "count" || r.Types[len(groupBy)] != "BIGINT" {
		return fmt.Errorf("last column is %q %q, want \"count\" BIGINT", r.Cols[len(groupBy)], r.Types[len(groupBy)])
	}
	row := func(i int) ([]string, int64, error) {
		vals := make([]string, len(groupBy))
		for j := range groupBy {
			s, ok := r.Rows[i][j].(string)
			if !ok {
				return nil, 0, fmt.Errorf("row %d column %d holds %T(%v), want a string", i, j, r.Rows[i][j], r.Rows[i][j])
			}
			vals[j] = s
		}
		n, ok := r.Rows[i][len(groupBy)].(int64)
		if !ok {
			return nil, 0, fmt.Errorf("row %d count column holds %T(%v), want int64", i, r.Rows[i][len(groupBy)], r.Rows[i][len(groupBy)])
		}
		return vals, n, nil
	}
	if len(groupBy) == 0 {
		if len(r.Rows) != 1 {
			return fmt.Errorf("%d rows for a query without group-by, want exactly one", len(r.Rows))
		}
		_, n, err := row(0)
		if err != nil {
			return err
		}
		if uint64(n) != want.Count {
			return fmt.Errorf("count %d, want %d", n, want.Count)
		}
		return nil
	}
	if len(r.Rows) != len(want.Groups) {
		return fmt.Errorf("%d rows, want %d (one per result group); first rows %v", len(r.Rows), len(want.Groups), head(r.Rows))
	}
	for i, g := range want.Groups {
		vals, n, err := row(i)
		if err != nil {
			return err
		}
		for j := range vals {
			if vals[j] != g.Vals[j] {
				return fmt.Errorf("row %d column %q: %+q, want %+q", i, groupBy[j], vals[j], g.Vals[j])
			}
		}
		if uint64(n) != g.Count {
			return fmt.Errorf("row %d %+q: count %d, want %d", i, g.Vals, n, g.Count)
		}
	}
	return nil
}

func head(rows [][]any) [][]any {
	if len(rows) > 3 {
		return rows[:3]
	}
	return rows
}
