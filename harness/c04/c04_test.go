// C04 — concurrent queries on one index are race-free and return sequential answers.
//
// The test binary (and the server) is built with -race and run with
// GORACE=halt_on_error=1: a data race kills the process; the driver then
// promotes the in-flight case file to the replay file.
package c04

import (
	"fmt"
	"os"
	"runtime"
	"strings"
	"sync"
	"sync/atomic"
	"testing"
	"time"

	"github.com/RoaringBitmap/roaring"
	"github.com/akrennmair/updog"
	pb "github.com/akrennmair/updog/proto/updog/v1"
	"github.com/akrennmair/updog/verifharness/evid"
	"github.com/akrennmair/updog/verifharness/fix"
	"github.com/akrennmair/updog/verifharness/gen"
	"github.com/akrennmair/updog/verifharness/model"
	"pgregory.net/rapid"
)

const prop = "C04"

func TestMain(m *testing.M) { fix.Main(m) }

type Q struct {
	Expr    model.Expr
	GroupBy []string
	Schema  bool // GetSchema instead of a query
}

// Case: one index, N goroutines each with its own work list.
type Case struct {
	Data   gen.DataSpec
	Open   fix.OpenCfg
	Writer int
	Work   [][]Q
	Rounds int
	// ShareExpr: goroutines that run the same query share ONE expression tree
	// object (distinct Query values pointing at the same operator nodes).
	ShareExpr bool
	// Lockstep: (in-process, work lists of equal length) the goroutines meet
	// at a bounded spin barrier before every second query, so that they work
	// on the same position of their lists at the same time whatever the load
	// of the machine
	Lockstep bool
	// Server: run through the -race `updog server` instead of in-process.
	Server     bool
	ServerArgs []string
}

func (c *Case) Summary() string {
	var b strings.Builder
	where := "in-process open=" + c.Open.String()
	if c.Server {
		where = fmt.Sprintf("server %v", c.ServerArgs)
	}
	fmt.Fprintf(&b, "%s %s goroutines=%d rounds=%d;", c.Data.Summary(), where, len(c.Work), c.Rounds)
	for g, w := range c.Work {
		if g >= 3 {
			b.WriteString(" …")
			break
		}
		fmt.Fprintf(&b, " g%d[%d]:", g, len(w))
		for i, q := range w {
			if i >= 4 {
				b.WriteString(" …")
				break
			}
			if q.Schema {
				b.WriteString(" schema;")
			} else {
				fmt.Fprintf(&b, " %s/%+q;", q.Expr.String(), q.GroupBy)
			}
		}
	}
	return b.String()
}

type facts struct {
	maxActive int32
	hits      int64
	execs     int64
}

type want struct {
	reject bool
	res    model.Result
}

// fanout releases len(work) goroutines from a barrier and reports the
// maximum number that were active at once.
func fanout(n int, body func(g int) error) (int32, []error) {
	var active, maxActive atomic.Int32
	start := make(chan struct{})
	errs := make([]error, n)
	var wg sync.WaitGroup
	for g := 0; g < n; g++ {
		wg.Add(1)
		go func(g int) {
			defer wg.Done()
			<-start
			a := active.Add(1)
			for {
				m := maxActive.Load()
				if a <= m || maxActive.CompareAndSwap(m, a) {
					break
				}
			}
			defer active.Add(-1)
			errs[g] = fix.Safe(func() error { return body(g) })
		}(g)
	}
	close(start)
	wg.Wait()
	return maxActive.Load(), errs
}

func oracle(c *Case) (facts, error) {
	var f facts
	rows := c.Data.Rows()
	d := model.NewData(rows)
	dir := fix.CaseDir()
	defer os.RemoveAll(dir)
	path, _, err := fix.Build(dir, rows, c.Writer)
	if err != nil {
		return f, fmt.Errorf("build: %v", err)
	}
	// sequential answers from the model, computed beforehand
	wants := make([][]want, len(c.Work))
	for g, w := range c.Work {
		wants[g] = make([]want, len(w))
		for i, q := range w {
			if q.Schema {
				continue
			}
			if d.Rejects(q.Expr, q.GroupBy) {
				wants[g][i].reject = true
			} else {
				wants[g][i].res = d.Query(q.Expr, q.GroupBy)
			}
		}
	}
	if c.Server {
		return serverOracle(c, path, wants)
	}
	idx, cc, err := fix.Open(path, c.Open)
	if err != nil {
		return f, fmt.Errorf("open: %v", err)
	}
	defer fix.Safe(idx.Close)
	var execs atomic.Int64
	var meet []atomic.Int32
	if c.Lockstep && len(c.Work) > 0 {
		meet = make([]atomic.Int32, c.Rounds*(len(c.Work[0])/2+1))
	}
	maxActive, errs := fanout(len(c.Work), func(g int) error {
		for r := 0; r < c.Rounds; r++ {
			for i, q := range c.Work[g] {
				if meet != nil && i%2 == 0 {
					if k := r*(len(c.Work[0])/2+1) + i/2; k < len(meet) {
						meet[k].Add(1)
						// a short spin, then sleeping waits (at most ~0.2 s): busy
						// waiting would take the processors from the goroutines
						// that are waited for when the machine is loaded
						for spin := 0; spin < 10000 && int(meet[k].Load()) < len(c.Work); spin++ {
							if spin < 300 {
								runtime.Gosched()
							} else {
								time.Sleep(20 * time.Microsecond)
							}
						}
					}
				}
				execs.Add(1)
				if q.Schema {
					if err := fix.CheckSchema(idx, d); err != nil {
						return fmt.Errorf("goroutine %d GetSchema: %v", g, err)
					}
					continue
				}
				uq := fix.NewQuery(q.Expr, q.GroupBy)
				if c.ShareExpr {
					uq.Expr = sharedExpr(q.Expr)
				}
				res, err := fix.Exec(idx, uq)
				if e := compare(wants[g][i], res, err); e != nil {
					return fmt.Errorf("goroutine %d round %d query %d %s GROUP BY %+q: %v", g, r, i, q.Expr.String(), q.GroupBy, e)
				}
			}
		}
		return nil
	})
	f.maxActive = maxActive
	f.execs = execs.Load()
	if cc != nil {
		f.hits = cc.Hit.N.Load()
	}
	for _, e := range errs {
		if e != nil {
			return f, e
		}
	}
	return f, nil
}

// sharedExpr returns one updog expression object per distinct model expression.
var sharedMu sync.Mutex
var sharedTrees = map[string]updog.Expression{}

func sharedExpr(e model.Expr) updog.Expression {
	k := e.String()
	sharedMu.Lock()
	defer sharedMu.Unlock()
	if x, ok := sharedTrees[k]; ok {
		return x
	}
	if len(sharedTrees) > 5000 {
		sharedTrees = map[string]updog.Expression{}
	}
	x := fix.ToUpdog(e)
	sharedTrees[k] = x
	return x
}

func compare(w want, res *updog.Result, err error) error {
	if fix.IsPanic(err) {
		return err
	}
	if w.reject {
		if err == nil {
			return fmt.Errorf("expected an error (unknown column), got a result")
		}
		return nil
	}
	if err != nil {
		return fmt.Errorf("unexpected error: %v", err)
	}
	return model.DiffResult(fix.FromResult(res), w.res)
}

// serverOracle drives the -race server with len(Work) concurrent streams.
func serverOracle(c *Case, path string, wants [][]want) (facts, error) {
	var f facts
	srv, err := fix.StartServer(path, c.ServerArgs...)
	if err != nil {
		return f, fmt.Errorf("INFRA: cannot start server: %v", err)
	}
	defer srv.Stop()
	var execs atomic.Int64
	maxActive, errs := fanout(len(c.Work), func(g int) error {
		for r := 0; r < c.Rounds; r++ {
			for i, q := range c.Work[g] {
				if q.Schema {
					continue
				}
				execs.Add(1)
				resp, err := srv.Query(&pb.QueryRequest{Queries: []*pb.Query{fix.PBQuery(q.Expr, q.GroupBy, 0)}}, 60*time.Second)
				w := wants[g][i]
				if w.reject {
					if err == nil {
						return fmt.Errorf("stream %d query %d: expected an RPC error (unknown column)", g, i)
					}
					if !srv.Alive() {
						return fmt.Errorf("stream %d: server died (%s): %s", g, srv.ExitInfo(), tail(srv.Output()))
					}
					continue
				}
				if err != nil {
					srv.WaitExit(2 * time.Second)
					return fmt.Errorf("stream %d round %d query %d %s: RPC error %v; server %s: %s", g, r, i, q.Expr.String(), err, srv.ExitInfo(), tail(srv.Output()))
				}
				if len(resp.Results) != 1 {
					return fmt.Errorf("stream %d: %d results for 1 query", g, len(resp.Results))
				}
				if e := model.DiffResult(fix.FromPBResult(resp.Results[0]), w.res); e != nil {
					return fmt.Errorf("stream %d round %d query %d %s GROUP BY %+q: %v", g, r, i, q.Expr.String(), q.GroupBy, e)
				}
			}
		}
		return nil
	})
	f.maxActive = maxActive
	f.execs = execs.Load()
	f.hits = 1
	for _, e := range errs {
		if e != nil {
			return f, e
		}
	}
	if !srv.Alive() || strings.Contains(srv.Output(), "DATA RACE") {
		return f, fmt.Errorf("server reported a data race or died (%s): %s", srv.ExitInfo(), tail(srv.Output()))
	}
	return f, nil
}

func tail(s string) string {
	if i := strings.Index(s, "WARNING: DATA RACE"); i >= 0 {
		s = s[i:]
		if len(s) > 3000 {
			s = s[:3000]
		}
		return s
	}
	if len(s) > 1500 {
		s = s[len(s)-1500:]
	}
	return s
}

func run(t interface{ Fatalf(string, ...any) }, c *Case, sub string) {
	evid.Inflight(prop, sub, c, c.Summary())
	var f facts
	var err error
	werr, hung, slow := fix.Watchdog(120*time.Second, []string{"[chan receive+updog.(*Index).Execute", "[select+updog.(*Index).Execute", "[semacquire+updog.(*Index).Execute", "[sync.Cond.Wait+updog.(*Index).Execute", "[sync.WaitGroup.Wait+updog.(*Index).Execute", "[sync.Mutex.Lock+updog.(*Index).Execute", "[sync.RWMutex.RLock+updog.(*Index).Execute"}, func() error {
		var e error
		f, e = oracle(c)
		return e
	})
	err = werr
	if hung != "" {
		// goroutines are stuck inside Execute: record the case and leave (they
		// would keep the index and its locks forever)
		herr := fmt.Errorf("concurrent Execute calls never return: goroutine stuck:\n%s", hung)
		evid.WriteCase(prop, sub, c, c.Summary(), herr)
		evid.ClearInflight(prop, sub)
		evid.Flush()
		fmt.Printf("HANG: %v\n", herr)
		os.Exit(3)
	}
	if slow {
		panic("INFRA: concurrent case slow (>120s) but no goroutine provably stuck in Execute")
	}
	evid.ClearInflight(prop, sub)
	if err != nil && strings.HasPrefix(err.Error(), "INFRA:") {
		panic(err.Error())
	}
	cl := []string{"cfg:" + c.Open.String(), fmt.Sprintf("goroutines<=%d", bucket(len(c.Work)))}
	if c.Server {
		cl = []string{fmt.Sprintf("server%v", c.ServerArgs)}
	}
	if f.maxActive >= 2 {
		cl = append(cl, "overlapped")
	}
	if f.hits > 0 {
		cl = append(cl, "had-cache-hit")
	}
	evid.Note("executions", f.execs)
	nt := f.maxActive >= 2 && (c.Open.CacheCap < 0 || f.hits > 0 || c.Server)
	evid.Case(nt, c.Summary(), cl...)
	if err != nil {
		fix.Fail(t, prop, sub, c, c.Summary(), err)
	}
}

func bucket(n int) int {
	switch {
	case n <= 2:
		return 2
	case n <= 4:
		return 4
	case n <= 8:
		return 8
	}
	return 16
}

func drawCase(t *rapid.T, maxN int, server bool) *Case {
	c := &Case{Server: server}
	n := rapid.SampledFrom([]int{3000, 4097, 5000, 20000}).Draw(t, "n")
	if n > maxN {
		n = maxN
	}
	spec := gen.DrawRecipe(t, n, false)
	spec.Recipe.N = n
	if server {
		gen.UTF8Spec(spec)
	}
	c.Data = *spec
	c.Writer = rapid.IntRange(0, fix.NWriters-1).Draw(t, "writer")
	if server {
		c.ServerArgs = rapid.SampledFrom([][]string{{}, {"-p"}, {"-s", "20000"}, {"-c=false"}, {"env:GOMAXPROCS=2"}, {"-s", "20000", "env:GOMAXPROCS=1"}}).Draw(t, "sargs")
	} else {
		c.Open.Preload = rapid.Bool().Draw(t, "preload")
		c.Open.CacheCap = rapid.SampledFrom([]int64{-1, 600, 5000, 1 << 24, 1 << 24}).Draw(t, "cap")
	}
	d := model.NewData(c.Data.Rows())
	pool := gen.NewLeafPool(d)
	best := ""
	for _, pc := range pool.Cols {
		if best == "" || len(d.Values(pc)) < len(d.Values(best)) {
			best = pc
		}
	}
	var shared []model.Expr
	for i := 0; i < 6; i++ {
		shared = append(shared, pool.Expr(t, gen.ExprOpts{MaxDepth: 3}))
	}
	// identical queries that FAIL (unknown column), some of them wide, issued
	// by several goroutines at once
	for i := 0; i < 2; i++ {
		n := rapid.SampledFrom([]int{2, 8, 9, 16, 20}).Draw(t, "failwidth")
		subs := make([]model.Expr, n)
		for j := range subs {
			subs[j] = pool.Leaf(t, gen.ExprOpts{})
		}
		subs[rapid.IntRange(0, n-1).Draw(t, "failat")] = model.Eq("no_such_column", "x")
		if rapid.Bool().Draw(t, "failop") {
			shared = append(shared, model.And(subs...))
		} else {
			shared = append(shared, model.Or(subs...))
		}
	}
	// the column with the MOST values (first group-by on a big column from
	// several goroutines at once), bounded for cost
	big := ""
	for _, pc := range pool.Cols {
		if n := len(d.Values(pc)); n <= 6000 && (big == "" || n > len(d.Values(big))) {
			big = pc
		}
	}
	ng := rapid.IntRange(2, 16).Draw(t, "goroutines")
	for g := 0; g < ng; g++ {
		var w []Q
		k := rapid.IntRange(2, 8).Draw(t, "nwork")
		for i := 0; i < k; i++ {
			switch x := rapid.IntRange(0, 9).Draw(t, "wk"); {
			case x == 0:
				w = append(w, Q{Schema: true})
			case x < 6:
				w = append(w, Q{Expr: pool.Confuse(t, shared, gen.ExprOpts{MaxDepth: 3})})
			case x < 8:
				q := Q{Expr: shared[rapid.IntRange(0, len(shared)-1).Draw(t, "sh")]}
				// group by the column with the fewest values to bound the cost
				if rapid.Bool().Draw(t, "gb") && best != "" && len(d.Values(best)) <= 1200 {
					q.GroupBy = []string{best}
				}
				if big != "" && rapid.IntRange(0, 2).Draw(t, "gbbig") == 0 && !d.Rejects(q.Expr, nil) {
					q.GroupBy = []string{big}
				}
				w = append(w, q)
			default:
				w = append(w, Q{Expr: pool.Expr(t, gen.UnknownSometimes(t))})
			}
		}
		c.Work = append(c.Work, w)
	}
	c.Rounds = rapid.IntRange(1, 4).Draw(t, "rounds")
	c.ShareExpr = !server && rapid.Bool().Draw(t, "shareexpr")
	if server {
		for g := range c.Work {
			for i := range c.Work[g] {
				c.Work[g][i].Expr = gen.UTF8Expr(c.Work[g][i].Expr)
			}
		}
	}
	return c
}

// ---------------------------------------------------------------- raw LRU cache

type CacheCase struct {
	Cap        uint64
	Goroutines int
	Keys       int
	OpsPer     int
	Pattern    int
}

func (c *CacheCase) Summary() string {
	return fmt.Sprintf("raw LRUCache cap=%d goroutines=%d keys=%d ops/goroutine=%d pattern=%d", c.Cap, c.Goroutines, c.Keys, c.OpsPer, c.Pattern)
}

// cacheOracle hammers one LRUCache from many goroutines.  Every bitmap put
// under key k contains k: a hit must return a bitmap that was at some point
// stored under that key.  The op sequence of each goroutine is a pure
// function of (Pattern, goroutine).
func cacheOracle(c *CacheCase) (int64, error) {
	var cn struct{ hit, miss, get, put fix.Counter }
	cache := updog.NewLRUCache(c.Cap, updog.WithCacheMetrics(&updog.CacheMetrics{CacheHit: &cn.hit, CacheMiss: &cn.miss, GetCall: &cn.get, PutCall: &cn.put}))
	var gets, puts atomic.Int64
	wasPut := make([]atomic.Bool, c.Keys)
	arrived := make([]atomic.Int32, c.Keys)
	_, errs := fanout(c.Goroutines, func(g int) error {
		x := uint32(c.Pattern*7919 + g*104729 + 1)
		if c.Pattern%2 == 0 {
			// all goroutines start by storing the same, not yet cached keys in
			// the same order: concurrent first Put of one key.  They meet before
			// every key (a spin barrier with a bound), so that the Puts of one key
			// really start together
			for k := 0; k < c.Keys; k++ {
				bm := roaring.New()
				bm.Add(uint32(k))
				bm.Add(uint32(2000 + g))
				arrived[k].Add(1)
				for spin := 0; spin < 200000 && int(arrived[k].Load()) < c.Goroutines; spin++ {
					if spin%64 == 63 {
						runtime.Gosched()
					}
				}
				cache.Put(uint64(k), bm)
				wasPut[k].Store(true)
				puts.Add(1)
			}
		}
		for i := 0; i < c.OpsPer; i++ {
			x = x*1664525 + 1013904223
			k := uint64(x>>8) % uint64(c.Keys)
			if (x>>4)&3 == 0 {
				bm := roaring.New()
				bm.Add(uint32(k))
				bm.Add(uint32(1000 + g))
				if (x>>6)&1 == 1 {
					bm.AddRange(5000, 5000+uint64(x>>20))
				}
				cache.Put(k, bm)
				wasPut[k].Store(true)
				puts.Add(1)
			} else {
				gets.Add(1)
				bm, ok := cache.Get(k)
				if !ok {
					continue
				}
				if bm == nil || !bm.Contains(uint32(k)) {
					return fmt.Errorf("goroutine %d: hit for key %d returned a bitmap that was never stored under it", g, k)
				}
			}
		}
		return nil
	})
	for _, e := range errs {
		if e != nil {
			return 0, e
		}
	}
	// sequential epilogue on the state the concurrent phase left behind: the
	// single-threaded guarantees must still hold (a corrupted recency list or
	// orphaned entries show up here even when no data race was reported)
	if c.Cap >= 1<<22 {
		// everything stored always fitted comfortably: nothing may be gone
		for k := 0; k < c.Keys; k++ {
			if wasPut[k].Load() {
				if bm, ok := cache.Get(uint64(k)); !ok || bm == nil || !bm.Contains(uint32(k)) {
					return 0, fmt.Errorf("after the concurrent phase key %d is gone (or wrong) although everything stored fits capacity %d", k, c.Cap)
				}
			}
		}
	}
	for round := 0; round < 3; round++ {
		for k := 0; k < c.Keys; k++ {
			bm := roaring.New()
			bm.Add(uint32(k))
			bm.Add(uint32(9000 + round))
			cache.Put(uint64(k), bm)
			got, ok := cache.Get(uint64(k))
			if bm.GetSizeInBytes()+256 <= c.Cap {
				if !ok || !got.Equals(bm) {
					return 0, fmt.Errorf("epilogue after the concurrent phase: Put(%d) of a %d-byte bitmap into capacity %d, then Get: hit=%v (must return the bitmap just stored)", k, bm.GetSizeInBytes(), c.Cap, ok)
				}
			}
		}
	}
	// LRU order from the post-concurrency state: key k is stored and then
	// looked up after every further insertion of a fresh filler key; being
	// the most recently used entry all the time it can never be the one
	// that is evicted (an orphaned duplicate of k further back in the
	// recency list, or a stale map entry, shows up here)
	var extraGets, extraPuts int64
	if c.Cap >= 4000 {
		// every key is stored, then fresh filler entries are inserted until the
		// whole capacity has been turned over once; after each insertion every
		// key is looked up (so the keys stay the most recently used entries)
		mine := make([]*roaring.Bitmap, c.Keys)
		for k := 0; k < c.Keys; k++ {
			mine[k] = roaring.New()
			mine[k].Add(uint32(k))
			cache.Put(uint64(k), mine[k])
			extraPuts++
		}
		fillers := int(c.Cap/40) + 100
		next := uint64(1 << 40)
		for i := 0; i < fillers; i++ {
			fb := roaring.New()
			fb.Add(uint32(i))
			next++
			cache.Put(next, fb)
			extraPuts++
			for k := 0; k < c.Keys; k++ {
				got, ok := cache.Get(uint64(k))
				extraGets++
				if !ok || !got.Equals(mine[k]) {
					return 0, fmt.Errorf("epilogue after the concurrent phase (capacity %d): the %d keys were stored and are looked up after every insertion of a fresh small entry, so they are the most recently used entries throughout and fit many times over - yet key %d is gone after insertion %d", c.Cap, c.Keys, k, i+1)
				}
			}
		}
	}
	gets.Add(int64(3*c.Keys) + wasPutGets(c, wasPut) + extraGets)
	puts.Add(int64(3*c.Keys) + extraPuts)
	if cn.get.N.Load() != gets.Load() || cn.put.N.Load() != puts.Load() || cn.hit.N.Load()+cn.miss.N.Load() != gets.Load() {
		return 0, fmt.Errorf("counters get/put/hit/miss = %d/%d/%d/%d but %d Gets and %d Puts were issued", cn.get.N.Load(), cn.put.N.Load(), cn.hit.N.Load(), cn.miss.N.Load(), gets.Load(), puts.Load())
	}
	return cn.hit.N.Load(), nil
}

func wasPutGets(c *CacheCase, wasPut []atomic.Bool) int64 {
	if c.Cap < 1<<22 {
		return 0
	}
	var n int64
	for k := range wasPut {
		if wasPut[k].Load() {
			n++
		}
	}
	return n
}

func runCache(t interface{ Fatalf(string, ...any) }, c *CacheCase) {
	evid.Inflight(prop, "rawcache", c, c.Summary())
	hits, err := cacheOracle(c)
	evid.ClearInflight(prop, "rawcache")
	evid.Case(hits > 0 && c.Goroutines >= 2, c.Summary(), "rawcache")
	if err != nil {
		fix.Fail(t, prop, "rawcache", c, c.Summary(), err)
	}
}

func drawCacheCase(t *rapid.T) *CacheCase {
	return &CacheCase{
		Cap:        rapid.SampledFrom([]uint64{0, 200, 1000, 5000, 1 << 22}).Draw(t, "cap"),
		Goroutines: rapid.IntRange(2, 16).Draw(t, "g"),
		Keys:       rapid.IntRange(1, 8).Draw(t, "keys"),
		OpsPer:     rapid.IntRange(50, 2000).Draw(t, "ops"),
		Pattern:    rapid.IntRange(0, 1<<20).Draw(t, "pattern"),
	}
}

func replay(cf *evid.CaseFile) error {
	if cf.Sub == "fresh" {
		var c FreshCase
		if err := evid.Decode(cf.Gob, &c); err != nil {
			return err
		}
		return freshOracle(&c)
	}
	if cf.Sub == "copies" {
		var c CopyCase
		if err := evid.Decode(cf.Gob, &c); err != nil {
			return err
		}
		return copyOracle(&c)
	}
	if cf.Sub == "newcache" {
		var c NewCacheCase
		if err := evid.Decode(cf.Gob, &c); err != nil {
			return err
		}
		return newCacheOracle(&c)
	}
	if cf.Sub == "rawcache" {
		var c CacheCase
		if err := evid.Decode(cf.Gob, &c); err != nil {
			return err
		}
		var err error
		for i := 0; i < 20 && err == nil; i++ { // schedules vary: repeat
			_, err = cacheOracle(&c)
		}
		return err
	}
	var c Case
	if err := evid.Decode(cf.Gob, &c); err != nil {
		return fmt.Errorf("undecodable case: %v", err)
	}
	var err error
	for i := 0; i < 5 && err == nil; i++ {
		_, err = oracle(&c)
	}
	return err
}

// bigFirstUse: a column with more than 65,536 distinct values; all goroutines
// make their first use of a FRESH index at the same moment, grouping by it
// (whatever is built lazily per column on first use is built under contention
// and takes long enough for the others to arrive meanwhile).
func bigFirstUse(t *testing.T, n, goroutines int, oc fix.OpenCfg) {
	spec := gen.DataSpec{Recipe: &gen.Recipe{N: n, Cols: []gen.ColSpec{
		{Name: "u", Prefix: "r", Kind: gen.KUnique}, {Name: "g", Kind: gen.KMod, K: 3, Prefix: "p"}}}}
	taut := model.Not(model.Eq("g", "none"))
	c := &Case{Data: spec, Open: oc, Rounds: 1}
	for g := 0; g < goroutines; g++ {
		w := []Q{{Expr: taut, GroupBy: []string{"u"}}, {Expr: model.Eq("g", "p1"), GroupBy: []string{"u"}}}
		if g%2 == 1 {
			w[0], w[1] = w[1], w[0]
		}
		c.Work = append(c.Work, w)
	}
	run(t, c, "inprocess")
}

// hotWrappers: for each of many negations, every goroutine first asks for the
// negation itself and then for a single-operand AND / OR node (or its
// negation) around it - under the race detector whatever the single-operand
// path does with a cached bitmap shows.
func hotWrappers(t *testing.T, goroutines, values int) {
	hotWrappersCfg(t, goroutines, values, fix.OpenCfg{CacheCap: 1 << 26})
	// the same without any cache on preloaded data: whatever a wrapper hands
	// out or flips in place is then the stored bitmap itself
	hotWrappersCfg(t, goroutines, values/3+1, fix.OpenCfg{Preload: true, CacheCap: -1})
}

// sharedTreesLockstep: all goroutines execute the SAME expression tree objects
// (distinct Query values), position by position, at the same time.
func sharedTreesLockstep(t *testing.T, goroutines, values int) {
	spec := gen.DataSpec{Recipe: &gen.Recipe{N: 3000, Cols: []gen.ColSpec{
		{Name: "a", Kind: gen.KMod, K: values, Prefix: "v"}, {Name: "b", Kind: gen.KMod, K: 3}}}}
	for _, oc := range []fix.OpenCfg{{CacheCap: -1}, {Preload: true, CacheCap: 1 << 26}} {
		c := &Case{Data: spec, Open: oc, Rounds: 1, Lockstep: true, ShareExpr: true}
		var w []Q
		for v := 0; v < values; v++ {
			a, b := model.Eq("a", fmt.Sprintf("v%d", v)), model.Eq("b", fmt.Sprint(v%3))
			w = append(w, Q{Expr: model.And(a, model.Not(b))}, Q{Expr: model.Or(model.And(a, b), model.Not(model.Or(a, b))), GroupBy: []string{"b"}})
		}
		for g := 0; g < goroutines; g++ {
			c.Work = append(c.Work, w)
		}
		run(t, c, "inprocess")
	}
}

func hotWrappersCfg(t *testing.T, goroutines, values int, oc fix.OpenCfg) {
	spec := gen.DataSpec{Recipe: &gen.Recipe{N: 3000, Cols: []gen.ColSpec{
		{Name: "a", Kind: gen.KMod, K: values, Prefix: "v"}, {Name: "b", Kind: gen.KMod, K: 3}}}}
	c := &Case{Data: spec, Open: oc, Rounds: 1, Lockstep: true}
	for g := 0; g < goroutines; g++ {
		var w []Q
		for v := 0; v < values; v++ {
			// every goroutine first asks for the negation (so it is cached), then
			// for ITS wrapper around it: the wrappers of one negation have
			// different cache keys and are evaluated for the first time together
			n := model.Not(model.Eq("a", fmt.Sprintf("v%d", v)))
			if oc.Preload {
				n = model.Eq("a", fmt.Sprintf("v%d", v)) // the wrappers sit directly on a stored bitmap
			}
			var wr model.Expr
			switch g % 4 {
			case 0:
				wr = model.And(n)
			case 1:
				wr = model.Or(n)
			case 2:
				wr = model.Not(model.And(n))
			default:
				wr = model.Not(model.Or(n))
			}
			w = append(w, Q{Expr: n}, Q{Expr: wr})
		}
		c.Work = append(c.Work, w)
	}
	run(t, c, "inprocess")
}

// CopyCase: a Query is executed once, copied by value (a Query is a plain
// struct with exported fields), the copy gets another group-by list, and both
// are then executed by many goroutines at the same time.
type CopyCase struct {
	Rounds int
	Open   fix.OpenCfg
}

func (c *CopyCase) Summary() string {
	return fmt.Sprintf("one executed Query and its by-value copy with another group-by list, and two more such copies, each object executed %d times by a goroutine of its own, all at once (%+v)", c.Rounds, c.Open)
}

func copyOracle(c *CopyCase) error {
	dir := fix.CaseDir()
	defer os.RemoveAll(dir)
	spec := gen.DataSpec{Recipe: &gen.Recipe{N: 900, Cols: []gen.ColSpec{
		{Name: "x", Kind: gen.KMod, K: 4, Prefix: "x"}, {Name: "c", Kind: gen.KMod, K: 3, Prefix: "c"}, {Name: "b", Kind: gen.KMod, K: 5}}}}
	rows := spec.Rows()
	d := model.NewData(rows)
	path, _, err := fix.Build(dir, rows, fix.WMemFile)
	if err != nil {
		return fmt.Errorf("INFRA: %v", err)
	}
	idx, _, err := fix.Open(path, c.Open)
	if err != nil {
		return fmt.Errorf("INFRA: %v", err)
	}
	defer fix.Safe(idx.Close)
	taut := model.Not(model.Eq("b", "none"))
	lists := [][]string{{"x"}, {"c"}, {"c", "x"}, {"b"}}
	orig := fix.NewQuery(taut, lists[0])
	res, xerr := fix.Exec(idx, orig)
	if err := fix.CompareOutcome(d, taut, lists[0], res, xerr); err != nil {
		return fmt.Errorf("first execution: %v", err)
	}
	qs := []*updog.Query{orig}
	for _, gb := range lists[1:] {
		cp := *orig
		cp.GroupBy = append([]string(nil), gb...)
		qs = append(qs, &cp)
	}
	_, errs := fanout(len(qs), func(g int) error {
		for r := 0; r < c.Rounds; r++ {
			k := g // one goroutine per object: a Query object holds the state of its execution
			res, xerr := fix.Exec(idx, qs[k])
			if err := fix.CompareOutcome(d, taut, lists[k], res, xerr); err != nil {
				return fmt.Errorf("query object %d (group by %v; object 0 is the original, the others are by-value copies made after its first execution), round %d: %v", k, lists[k], r, err)
			}
		}
		return nil
	})
	for _, e := range errs {
		if e != nil {
			return e
		}
	}
	return nil
}

func runCopy(t interface{ Fatalf(string, ...any) }, c *CopyCase) {
	evid.Inflight(prop, "copies", c, c.Summary())
	err := copyOracle(c)
	evid.ClearInflight(prop, "copies")
	if err != nil && strings.HasPrefix(err.Error(), "INFRA:") {
		panic(err.Error())
	}
	evid.Note("copied_query_executions", int64(4*c.Rounds))
	evid.Case(true, c.Summary(), "copied-query-objects")
	if err != nil {
		fix.Fail(t, prop, "copies", c, c.Summary(), err)
	}
}

// FreshCase: many freshly opened indexes, each used for the first time by
// schema readers and group-by queries released together (whatever an index
// builds lazily on first use, and whatever locks the two paths take, meet here
// hundreds of times).
type FreshCase struct{ Attempts, Readers, Queriers int }

func (c *FreshCase) Summary() string {
	return fmt.Sprintf("%d fresh indexes, each first used by %d GetSchema callers and %d group-by queries at once", c.Attempts, c.Readers, c.Queriers)
}

func freshOracle(c *FreshCase) error {
	dir := fix.CaseDir()
	defer os.RemoveAll(dir)
	spec := gen.DataSpec{Recipe: &gen.Recipe{N: 400, Cols: []gen.ColSpec{
		{Name: "a", Kind: gen.KMod, K: 40, Prefix: "v"}, {Name: "b", Kind: gen.KMod, K: 3}}}}
	rows := spec.Rows()
	d := model.NewData(rows)
	path, _, err := fix.Build(dir, rows, fix.WMemFile)
	if err != nil {
		return fmt.Errorf("INFRA: %v", err)
	}
	taut := model.Not(model.Eq("b", "none"))
	for i := 0; i < c.Attempts; i++ {
		idx, _, err := fix.Open(path, fix.OpenCfg{Preload: i%2 == 1, CacheCap: -1})
		if err != nil {
			return fmt.Errorf("INFRA: %v", err)
		}
		werr, hung, slow := fix.Watchdog(20*time.Second, []string{"[sync.RWMutex.RLock+updog.(*Index)", "[sync.RWMutex.Lock+updog.(*Index)", "[sync.Mutex.Lock+updog.(*Index)", "[semacquire+updog.(*Index)"}, func() error {
			_, errs := fanout(c.Readers+c.Queriers, func(g int) error {
				for k := 0; k < 3; k++ {
					if g < c.Readers {
						if err := fix.CheckSchema(idx, d); err != nil {
							return err
						}
						continue
					}
					if err := fix.CheckQuery(idx, d, taut, []string{"a"}); err != nil {
						return err
					}
				}
				return nil
			})
			for _, e := range errs {
				if e != nil {
					return e
				}
			}
			return nil
		})
		if hung != "" {
			return &hangErr{fmt.Sprintf("fresh index #%d: schema readers and group-by queries never return:\n%s", i, hung)}
		}
		if slow {
			panic("INFRA: first use of a fresh index slow (>20s) but not provably stuck")
		}
		fix.Safe(idx.Close)
		if werr != nil {
			return fmt.Errorf("fresh index #%d: %v", i, werr)
		}
	}
	return nil
}

// NewCacheCase: many brand-new caches, each receiving its very first entries
// from several goroutines at the same moment.  The capacity is ample, so
// every stored entry has to be found afterwards.
type NewCacheCase struct{ Attempts, Goroutines int }

func (c *NewCacheCase) Summary() string {
	return fmt.Sprintf("%d brand-new LRU caches, each receiving its first %d entries from %d goroutines at once", c.Attempts, c.Goroutines, c.Goroutines)
}

func newCacheOracle(c *NewCacheCase) error {
	for i := 0; i < c.Attempts; i++ {
		cache := updog.NewLRUCache(1 << 30)
		var arrived atomic.Int32
		_, errs := fanout(c.Goroutines, func(g int) error {
			bm := roaring.BitmapOf(uint32(g), uint32(i))
			arrived.Add(1)
			for spin := 0; spin < 200000 && int(arrived.Load()) < c.Goroutines; spin++ {
				if spin%64 == 63 {
					runtime.Gosched()
				}
			}
			return fix.Safe(func() error { cache.Put(uint64(g)+1, bm); return nil })
		})
		for _, e := range errs {
			if e != nil {
				return fmt.Errorf("cache #%d: first Put: %v", i, e)
			}
		}
		for g := 0; g < c.Goroutines; g++ {
			var got *roaring.Bitmap
			var ok bool
			if err := fix.Safe(func() error { got, ok = cache.Get(uint64(g) + 1); return nil }); err != nil {
				return fmt.Errorf("cache #%d: Get: %v", i, err)
			}
			if !ok || got == nil || !got.Contains(uint32(g)) {
				return fmt.Errorf("cache #%d (capacity 1 GiB, %d tiny entries stored as its first entries by %d goroutines at once): the entry stored under key %d is not found afterwards (found=%v)", i, c.Goroutines, c.Goroutines, g+1, ok)
			}
		}
	}
	return nil
}

func runNewCache(t interface{ Fatalf(string, ...any) }, c *NewCacheCase) {
	err := newCacheOracle(c)
	evid.Note("brand_new_caches_first_filled_concurrently", int64(c.Attempts))
	evid.Case(true, c.Summary(), "new-cache-first-puts")
	if err != nil {
		fix.Fail(t, prop, "newcache", c, c.Summary(), err)
	}
}

type hangErr struct{ msg string }

func (h *hangErr) Error() string { return h.msg }

func runFresh(t interface{ Fatalf(string, ...any) }, c *FreshCase) {
	evid.Inflight(prop, "fresh", c, c.Summary())
	err := freshOracle(c)
	evid.ClearInflight(prop, "fresh")
	if err != nil && strings.HasPrefix(err.Error(), "INFRA:") {
		panic(err.Error())
	}
	evid.Note("fresh_indexes_first_used_concurrently", int64(c.Attempts))
	evid.Case(true, c.Summary(), "fresh-index-first-use")
	if err != nil {
		if _, hung := err.(*hangErr); hung {
			// the stuck goroutines keep the index and its locks: record and leave
			evid.WriteCase(prop, "fresh", c, c.Summary(), err)
			evid.Flush()
			fmt.Printf("HANG: %v\n", err)
			os.Exit(3)
		}
		fix.Fail(t, prop, "fresh", c, c.Summary(), err)
	}
}

func TestQuick(t *testing.T) {
	// first: the first executions of the process arrive together (whatever
	// the library sets up lazily is set up under concurrency)
	hotWrappers(t, 8, 300)
	sharedTreesLockstep(t, 8, 150)
	fix.Pinned(t, prop, replay)
	runFresh(t, &FreshCase{Attempts: 700, Readers: 4, Queriers: 4})
	bigFirstUse(t, 70001, 6, fix.OpenCfg{CacheCap: -1})
	runNewCache(t, &NewCacheCase{Attempts: 20000, Goroutines: 4})
	runCopy(t, &CopyCase{Rounds: 3000, Open: fix.OpenCfg{CacheCap: -1}})
	runCopy(t, &CopyCase{Rounds: 3000, Open: fix.OpenCfg{Preload: true, CacheCap: 1 << 22}})
	fix.Check(t, "rawcache", 120, func(rt *rapid.T) { runCache(rt, drawCacheCase(rt)) })
	fix.Check(t, "inprocess", 30, func(rt *rapid.T) { run(rt, drawCase(rt, 5000, false), "inprocess") })
	fix.Check(t, "server", 3, func(rt *rapid.T) { run(rt, drawCase(rt, 5000, true), "server") })
}

func TestThorough(t *testing.T) {
	hotWrappers(t, 12, 1000) // first: the first executions of the process arrive together
	sharedTreesLockstep(t, 12, 400)
	if shard, _ := evid.Shard(); shard == 0 {
		fix.Pinned(t, prop, replay)
	}
	runFresh(t, &FreshCase{Attempts: 1500, Readers: 4, Queriers: 4})
	if shard, _ := evid.Shard(); shard < 3 {
		bigFirstUse(t, 70001, 4+4*shard, fix.OpenCfg{Preload: shard == 1, CacheCap: int64(shard-1) * (1 << 20)})
	}
	runNewCache(t, &NewCacheCase{Attempts: 60000, Goroutines: 4})
	runCopy(t, &CopyCase{Rounds: 12000, Open: fix.OpenCfg{CacheCap: -1}})
	runCopy(t, &CopyCase{Rounds: 12000, Open: fix.OpenCfg{Preload: true, CacheCap: 1 << 22}})
	fix.Check(t, "rawcache", 300, func(rt *rapid.T) { runCache(rt, drawCacheCase(rt)) })
	fix.Check(t, "inprocess", 150, func(rt *rapid.T) { run(rt, drawCase(rt, 20000, false), "inprocess") })
	fix.Check(t, "server", 6, func(rt *rapid.T) { run(rt, drawCase(rt, 20000, true), "server") })
}

func TestReplay(t *testing.T) {
	cf := fix.ReplayFile(t)
	if err := replay(cf); err != nil {
		t.Fatalf("replay of %s/%s fails: %v", cf.Property, cf.Sub, err)
	}
}
