// Package evid collects what a check run actually covered (counts, distinct
// non-trivial cases, class histogram, samples) and serialises failing cases
// into self-contained replay files.  It has no dependency on updog.
package evid

import (
	"bytes"
	"encoding/base64"
	"encoding/gob"
	"encoding/json"
	"flag"
	"fmt"
	"hash/fnv"
	"os"
	"path/filepath"
	"sort"
	"strconv"
	"sync"
)

const maxHashes = 1 << 21

type sample struct {
	h uint64
	s string
}

type collector struct {
	mu          sync.Mutex
	evaluations int64
	nontrivial  int64
	hashes      map[uint64]struct{}
	classes     map[string]int64
	notes       map[string]int64
	first       []string
	low         []sample
	requested   map[string]int64
	achieved    map[string]int64
	exhaustive  map[string]bool
	failures    int64
	known       []string
}

var c = &collector{
	hashes:     map[uint64]struct{}{},
	classes:    map[string]int64{},
	notes:      map[string]int64{},
	requested:  map[string]int64{},
	achieved:   map[string]int64{},
	exhaustive: map[string]bool{},
}

func hash64(s string) uint64 {
	h := fnv.New64a()
	h.Write([]byte(s))
	return h.Sum64()
}

func trunc(s string, n int) string {
	if len(s) <= n {
		return s
	}
	return s[:n] + fmt.Sprintf("…(+%d bytes)", len(s)-n)
}

// Case records one evaluated case. canon is a canonical, human readable
// encoding of the case (used for distinctness and as sample text).
func Case(nonTrivial bool, canon string, classes ...string) {
	c.mu.Lock()
	defer c.mu.Unlock()
	c.evaluations++
	for _, cl := range classes {
		c.classes[cl]++
	}
	if !nonTrivial {
		c.classes["trivial"]++
		return
	}
	c.nontrivial++
	h := hash64(canon)
	if _, seen := c.hashes[h]; seen {
		return
	}
	if len(c.hashes) < maxHashes {
		c.hashes[h] = struct{}{}
	}
	if len(c.first) < 2 {
		c.first = append(c.first, trunc(canon, 700))
		return
	}
	// keep the 3 lowest-hash cases: a deterministic, unbiased-ish reservoir
	c.low = append(c.low, sample{h, trunc(canon, 700)})
	sort.Slice(c.low, func(i, j int) bool { return c.low[i].h < c.low[j].h })
	if len(c.low) > 3 {
		c.low = c.low[:3]
	}
}

// Note adds n to a named counter (e.g. draws excluded by construction).
func Note(key string, n int64) {
	c.mu.Lock()
	c.notes[key] += n
	c.mu.Unlock()
}

// Requested / Achieved record, per sub-check, how many generated cases were
// asked for and how many ran to completion; the driver treats a shortfall as
// inconclusive.
func Requested(sub string, n int) { c.mu.Lock(); c.requested[sub] += int64(n); c.mu.Unlock() }
func Achieved(sub string, n int)  { c.mu.Lock(); c.achieved[sub] += int64(n); c.mu.Unlock() }
func Exhaustive(sub string)       { c.mu.Lock(); c.exhaustive[sub] = true; c.mu.Unlock() }

// Known records that a pinned known-finding case failed as listed.
func Known(line string) { c.mu.Lock(); c.known = append(c.known, line); c.mu.Unlock() }

type Fragment struct {
	Evaluations int64            `json:"evaluations"`
	NonTrivial  int64            `json:"nontrivial"`
	Hashes      []string         `json:"hashes"`
	Classes     map[string]int64 `json:"classes"`
	Notes       map[string]int64 `json:"notes"`
	Samples     []string         `json:"samples"`
	Requested   map[string]int64 `json:"requested"`
	Achieved    map[string]int64 `json:"achieved"`
	Exhaustive  []string         `json:"exhaustive"`
	Failures    int64            `json:"failures"`
	Known       []string         `json:"known"`
}

// Flush writes the fragment to $VERIF_EVID_OUT (no-op when unset).
func Flush() {
	out := os.Getenv("VERIF_EVID_OUT")
	if out == "" {
		return
	}
	c.mu.Lock()
	defer c.mu.Unlock()
	f := Fragment{
		Evaluations: c.evaluations, NonTrivial: c.nontrivial,
		Classes: c.classes, Notes: c.notes, Requested: c.requested, Achieved: c.achieved,
		Failures: c.failures, Known: c.known,
	}
	for h := range c.hashes {
		f.Hashes = append(f.Hashes, strconv.FormatUint(h, 16))
	}
	sort.Strings(f.Hashes)
	f.Samples = append(f.Samples, c.first...)
	for _, s := range c.low {
		f.Samples = append(f.Samples, s.s)
	}
	for k := range c.exhaustive {
		f.Exhaustive = append(f.Exhaustive, k)
	}
	sort.Strings(f.Exhaustive)
	b, _ := json.Marshal(f)
	_ = os.WriteFile(out, b, 0o644)
}

// ---------------------------------------------------------------- replay files

// CaseFile is the on-disk form of a failing (or pinned) case.
type CaseFile struct {
	Property string `json:"property"`
	Sub      string `json:"sub"`
	Error    string `json:"error,omitempty"`
	Summary  string `json:"summary"`
	Gob      string `json:"case_gob_b64"`
	// Expect is only set on pinned files under corpus/: "pass" (regression of a
	// repaired defect) or "known" (a listed known finding, expected to fail).
	Expect string `json:"expect,omitempty"`
	Note   string `json:"note,omitempty"`
}

func Encode(v any) string {
	var b bytes.Buffer
	if err := gob.NewEncoder(&b).Encode(v); err != nil {
		panic(fmt.Sprintf("evid: cannot gob-encode case: %v", err))
	}
	return base64.StdEncoding.EncodeToString(b.Bytes())
}

func Decode(s string, v any) error {
	raw, err := base64.StdEncoding.DecodeString(s)
	if err != nil {
		return err
	}
	return gob.NewDecoder(bytes.NewReader(raw)).Decode(v)
}

// WriteCase serialises a failing case; called on every failing execution, so
// that after rapid's final re-run of the minimal buffer the file holds the
// shrunk case.  The path is $VERIF_REPLAY_DIR/<prop>-<sub>-s<shard>.json.
func WriteCase(prop, sub string, kase any, summary string, err error) string {
	c.mu.Lock()
	c.failures++
	c.mu.Unlock()
	dir := os.Getenv("VERIF_REPLAY_DIR")
	if dir == "" {
		dir = os.TempDir()
	}
	shard := os.Getenv("VERIF_SHARD")
	if shard == "" {
		shard = "0"
	}
	_ = os.MkdirAll(dir, 0o755)
	p := filepath.Join(dir, fmt.Sprintf("%s-%s-s%s.json", prop, sub, shard))
	cf := CaseFile{Property: prop, Sub: sub, Error: err.Error(), Summary: trunc(summary, 6000), Gob: Encode(kase)}
	b, _ := json.MarshalIndent(cf, "", " ")
	_ = os.WriteFile(p, b, 0o644)
	return p
}

func ReadCase(path string) (*CaseFile, error) {
	b, err := os.ReadFile(path)
	if err != nil {
		return nil, err
	}
	var cf CaseFile
	if err := json.Unmarshal(b, &cf); err != nil {
		return nil, err
	}
	return &cf, nil
}

// ---------------------------------------------------------------- run parameters

// Tier returns "quick" or "thorough" ($VERIF_TIER, default quick).
func Tier() string {
	if os.Getenv("VERIF_TIER") == "thorough" {
		return "thorough"
	}
	return "quick"
}

func Thorough() bool { return Tier() == "thorough" }

// SetChecks sets rapid's case count for the next rapid.Check call.  The count
// can be scaled with $VERIF_SCALE (float, default 1) for sensitivity runs.
func SetChecks(n int) int {
	if s := os.Getenv("VERIF_SCALE"); s != "" {
		if f, err := strconv.ParseFloat(s, 64); err == nil && f > 0 {
			n = int(float64(n)*f + 0.5)
			if n < 1 {
				n = 1
			}
		}
	}
	if err := flag.Set("rapid.checks", strconv.Itoa(n)); err != nil {
		panic(err)
	}
	return n
}

// Pick returns q in the quick tier and th in the thorough tier.
func Pick(q, th int) int {
	if Thorough() {
		return th
	}
	return q
}

// Shard returns this process' shard index and the number of shards.
func Shard() (int, int) {
	i, _ := strconv.Atoi(os.Getenv("VERIF_SHARD"))
	n, _ := strconv.Atoi(os.Getenv("VERIF_NSHARDS"))
	if n < 1 {
		n = 1
	}
	return i, n
}

// ---------------------------------------------------------------- in-flight cases

func inflightPath(prop, sub string) string {
	dir := os.Getenv("VERIF_REPLAY_DIR")
	if dir == "" {
		dir = os.TempDir()
	}
	shard := os.Getenv("VERIF_SHARD")
	if shard == "" {
		shard = "0"
	}
	return filepath.Join(dir, fmt.Sprintf("%s-%s-s%s.inflight.json", prop, sub, shard))
}

// Inflight writes the case about to be executed to a side file.  Checks whose
// failure mode kills the process (race detector with halt_on_error, fatal
// runtime errors, wedged processes) call it before running the case and
// ClearInflight afterwards; the driver promotes a left-over file to the replay
// file when the process died inside the case.
func Inflight(prop, sub string, kase any, summary string) {
	cf := CaseFile{Property: prop, Sub: sub, Summary: trunc(summary, 6000), Gob: Encode(kase)}
	b, _ := json.MarshalIndent(cf, "", " ")
	_ = os.MkdirAll(filepath.Dir(inflightPath(prop, sub)), 0o755)
	_ = os.WriteFile(inflightPath(prop, sub), b, 0o644)
}

// InflightFile marks an existing case file as in flight (pinned cases).
func InflightFile(prop, sub string, cf *CaseFile) {
	b, _ := json.MarshalIndent(cf, "", " ")
	_ = os.MkdirAll(filepath.Dir(inflightPath(prop, sub)), 0o755)
	_ = os.WriteFile(inflightPath(prop, sub), b, 0o644)
}

func ClearInflight(prop, sub string) { _ = os.Remove(inflightPath(prop, sub)) }
