//go:build verif

// C06 — index creation is crash-atomic: a partial file is never accepted as an index.
//
// Part A (fault enumeration): with the verif hook every committed prefix of the
// output file is snapshotted and each snapshot is handed to OpenIndex.
// Part B: the real `updog create [-b]` is killed (SIGKILL after a drawn delay,
// or by strace fault injection at the k-th write-class syscall) and whatever
// it left behind is handed to OpenIndex.
package c06

import (
	"bytes"
	"fmt"
	"os"
	"os/exec"
	"path/filepath"
	"regexp"
	"strings"
	"syscall"
	"testing"
	"time"

	"github.com/akrennmair/updog"
	"github.com/akrennmair/updog/verifharness/evid"
	"github.com/akrennmair/updog/verifharness/fix"
	"github.com/akrennmair/updog/verifharness/gen"
	"github.com/akrennmair/updog/verifharness/model"
	"go.etcd.io/bbolt"
	"pgregory.net/rapid"
)

const prop = "C06"

func TestMain(m *testing.M) { fix.Main(m) }

type Case struct {
	Data   gen.DataSpec
	Mode   string // "commit-points", "kill-delay", "kill-syscall", "file"
	Writer int    // commit-points
	Big    bool   // kill modes
	Frac   int    // kill-delay: per-mille of the measured full duration
	When   int    // kill-syscall: k-th write-class syscall (per thread)
	// Fault: instead of killing the process, the k-th write-class syscall (and,
	// with Persist, every later one of that thread) fails with this errno.  The
	// command must then exit non-zero, or exit 0 with a complete index; what it
	// leaves behind is examined like the remainder of a killed run (it is the
	// file a kill right after the failed call would leave).
	Fault   string
	Persist bool
	// Torn: non-zero adds, between every two consecutive states of the output
	// file, states in which the next write burst has only partly reached the
	// file (commit-points mode); the value selects where each burst is cut.
	Torn uint64
	// File: what the crashed process left (only filled in when a kill-mode
	// violation is reported, so that replay needs no process and no timing).
	File []byte
	// Finished: the command that left File had exited 0 (file mode).
	Finished bool
}

func (c *Case) Summary() string {
	s := fmt.Sprintf("%s mode=%s", c.Data.Summary(), c.Mode)
	switch c.Mode {
	case "commit-points":
		s += " writer=" + fix.WriterName[c.Writer]
		if c.Torn != 0 {
			s += fmt.Sprintf(" torn-bursts=%#x", c.Torn)
		}
	case "kill-delay":
		s += fmt.Sprintf(" big=%v kill-at=%d‰ of full duration", c.Big, c.Frac)
	case "kill-syscall":
		if c.Fault != "" {
			s += fmt.Sprintf(" big=%v write-class syscall #%d fails with %s (persistently=%v)", c.Big, c.When, c.Fault, c.Persist)
		} else {
			s += fmt.Sprintf(" big=%v kill at write-class syscall #%d", c.Big, c.When)
		}
	case "kill-at-size":
		s += fmt.Sprintf(" big=%v kill when the output reaches %d‰ of its final size", c.Big, c.Frac)
	case "file":
		s += fmt.Sprintf(" left-over file of %d bytes", len(c.File))
		if c.Finished {
			s += " of a command that exited 0"
		}
	}
	return s
}

// the third configuration names the file through a symbolic link (small files only)
var openCfgs = []fix.OpenCfg{{CacheCap: -1}, {Preload: true, CacheCap: -1}, {CacheCap: -1, Via: fix.ViaRelLink}}

// checkCrashFile is the oracle for one post-crash file: OpenIndex must reject
// it with an error, or accept it and then answer like the complete index.
func checkCrashFile(dir string, content []byte, d *model.Data, uniq string, what string) (accepted bool, err error) {
	// a file that kills the process when it is opened (bus error, segmentation
	// fault: neither can be recovered) leaves this case behind for the driver
	if curData != nil && len(content) <= 4<<20 {
		evid.Inflight(prop, "crash", &Case{Data: *curData, Mode: "file", File: content}, what+fmt.Sprintf(": left-over file of %d bytes", len(content)))
		defer evid.ClearInflight(prop, "crash")
	}
	for _, oc := range openCfgs {
		if oc.Via != fix.ViaPlain && len(content) > 1<<20 {
			continue
		}
		// every crash file of a case is examined at ONE path, at which the
		// complete index was opened before (see primePath): anything the process
		// remembers about a path must not make a partial file acceptable
		p := filepath.Join(dir, "examined.updog")
		os.Remove(p)
		if err := os.WriteFile(p, content, 0o644); err != nil {
			return false, err
		}
		var idx *updog.Index
		oerr, hung, slow := fix.Watchdog(30*time.Second, []string{"syscall.Flock+updog.OpenIndex", "bbolt.flock+updog.OpenIndex", "sync.(*RWMutex)+updog.OpenIndex", "sync.(*Mutex)+updog.OpenIndex", "sync.(*WaitGroup)+updog.OpenIndex"}, func() error {
			var e error
			idx, _, e = fix.Open(p, oc)
			return e
		})
		if slow {
			panic("INFRA: OpenIndex on a crash file is slow but not provably stuck")
		}
		if hung != "" {
			return false, fmt.Errorf("%s: OpenIndex(%s) hangs:\n%s", what, oc, hung)
		}
		if fix.IsPanic(oerr) {
			return false, fmt.Errorf("%s: OpenIndex(%s) panics instead of returning an error: %v", what, oc, oerr)
		}
		if oerr != nil {
			os.Remove(p)
			continue // rejected with an error: fine
		}
		accepted = true
		perr := fix.ProbeAll(idx, d, fix.ProbeOpts{Unique: uniq, MaxRows: 1500, MaxValues: 4000})
		fix.Safe(idx.Close)
		os.Remove(p)
		if perr != nil {
			return true, fmt.Errorf("%s: accepted by OpenIndex(%s) but does not answer like the complete index: %v", what, oc, perr)
		}
	}
	return accepted, nil
}

// primePath writes the COMPLETE index to the path at which the crash files
// will be examined, and opens it once in both configurations.
func primePath(dir string, rows []model.Row, d *model.Data) error {
	p := filepath.Join(dir, "examined.updog")
	if _, err := fix.BuildAt(p, rows, fix.WMemFile); err != nil {
		return fmt.Errorf("INFRA: %v", err)
	}
	for _, oc := range openCfgs {
		idx, _, err := fix.Open(p, oc)
		if err != nil {
			return fmt.Errorf("the complete index does not open (%s): %v", oc, err)
		}
		if err := fix.CheckSchema(idx, d); err != nil {
			fix.Safe(idx.Close)
			return err
		}
		fix.Safe(idx.Close)
	}
	return os.Remove(p)
}

type facts struct {
	points    int
	midpoints int // crash points strictly between first and last commit
	partial   bool
	torn      int // states with a partly written burst
	faulted   bool
	killedAt  string
}

var curData *gen.DataSpec

func oracle(c *Case) (facts, error) {
	var f facts
	curData = &c.Data
	rows := c.Data.Rows()
	d := model.NewData(rows)
	uniq := c.Data.UniqueCol()
	dir := fix.CaseDir()
	defer os.RemoveAll(dir)
	if err := primePath(dir, rows, d); err != nil {
		return f, err
	}
	switch c.Mode {
	case "file":
		acc, err := checkCrashFile(dir, c.File, d, uniq, "left-over file")
		if err == nil && c.Finished && !acc {
			err = fmt.Errorf("`updog create` exited 0 but OpenIndex rejects its output")
		}
		return f, err
	case "commit-points":
		return commitPoints(c, dir, rows, d, uniq)
	case "kill-delay", "kill-syscall", "kill-at-size":
		return killCreate(c, dir, rows, d, uniq)
	}
	return f, fmt.Errorf("bad mode %q", c.Mode)
}

type snap struct {
	site    string
	content []byte
}

func commitPoints(c *Case, dir string, rows []model.Row, d *model.Data, uniq string) (facts, error) {
	var f facts
	out := filepath.Join(dir, "out.updog")
	var snaps []snap
	updog.VerifHook = func(site string) {
		b, err := os.ReadFile(out)
		if err != nil {
			b = nil
		}
		snaps = append(snaps, snap{site, b})
	}
	_, berr := fix.BuildAt(out, rows, c.Writer)
	updog.VerifHook = nil
	if berr != nil {
		return f, fmt.Errorf("build failed: %v", berr)
	}
	// states before the first commit: a created but empty file, and an
	// initialised bbolt database without any bucket
	empty := filepath.Join(dir, "empty.db")
	db, err := bbolt.Open(empty, 0o644, nil)
	if err != nil {
		return f, err
	}
	db.Close()
	emptyDB, _ := os.ReadFile(empty)
	pre := []snap{{"created, 0 bytes", []byte{}}, {"bbolt initialised, nothing committed", emptyDB}}
	all := append(pre, snaps...)
	f.points = len(all)
	outCommits := 0
	for _, s := range snaps {
		if !strings.HasPrefix(s.site, "bigwriter.temp") {
			outCommits++
		}
	}
	seenOut := 0
	for i, s := range all {
		if s.content == nil {
			continue // output absent at that point: trivially fine
		}
		isOut := i >= len(pre) && !strings.HasPrefix(s.site, "bigwriter.temp")
		if isOut {
			seenOut++
		}
		last := isOut && seenOut == outCommits
		if isOut && !last {
			f.midpoints++
		}
		acc, err := checkCrashFile(dir, s.content, d, uniq, fmt.Sprintf("crash point %d/%d (after %s)", i+1, len(all), s.site))
		if err != nil {
			return f, err
		}
		if last && !acc {
			return f, fmt.Errorf("the completely written file (after %s) is rejected by OpenIndex", s.site)
		}
	}
	if c.Torn != 0 {
		var prev []byte
		prevSite := ""
		k := uint64(0)
		for _, s := range all {
			if s.content == nil {
				continue
			}
			if prev != nil && !bytes.Equal(prev, s.content) {
				for _, ts := range tornStates(prev, s.content, c.Torn+k) {
					k++
					f.torn++
					if _, err := checkCrashFile(dir, ts.content, d, uniq, fmt.Sprintf("write burst between (%s) and (%s) cut short: %s", prevSite, s.site, ts.site)); err != nil {
						return f, err
					}
				}
			}
			prev, prevSite = s.content, s.site
		}
	}
	return f, nil
}

// tornStates models a process that dies inside the burst of writes that takes
// the file from content a to content b.  bbolt writes a burst in ascending
// page order with the two meta pages (0 and 1) last, the very first burst
// (initialisation of an empty file) as one write of four pages starting at
// page 0; a kill cuts a burst, and a single write, at a page boundary.  The
// file may or may not have been extended to its new length beforehand.
func tornStates(a, b []byte, seed uint64) []snap {
	const ps = 4096
	var out []snap
	if len(a) == 0 {
		// first write: every page prefix, and one cut inside a page
		for n := ps; n < len(b); n += ps {
			out = append(out, snap{fmt.Sprintf("first %d of %d bytes of the first write", n, len(b)), append([]byte{}, b[:n]...)})
		}
		if len(b) > 1 {
			n := 1 + int(seed%uint64(len(b)-1))
			out = append(out, snap{fmt.Sprintf("first %d of %d bytes of the first write", n, len(b)), append([]byte{}, b[:n]...)})
		}
		return out
	}
	page := func(x []byte, i int) []byte {
		lo, hi := i*ps, (i+1)*ps
		if lo >= len(x) {
			return nil
		}
		if hi > len(x) {
			hi = len(x)
		}
		return x[lo:hi]
	}
	var changed []int
	for i := 2; i*ps < len(b); i++ {
		if !bytes.Equal(page(a, i), page(b, i)) {
			changed = append(changed, i)
		}
	}
	if len(changed) == 0 {
		return nil
	}
	for v := 0; v < 2; v++ {
		h := (seed + uint64(v)) * 0x9E3779B97F4A7C15
		j := int((h >> 8) % uint64(len(changed)+1)) // data pages that made it
		grown := h&1 == 0
		x := append([]byte{}, a...)
		if grown && len(b) > len(x) {
			x = append(x, make([]byte, len(b)-len(x))...)
		}
		for _, i := range changed[:j] {
			pg := page(b, i)
			if need := i*ps + len(pg); need > len(x) {
				x = append(x, make([]byte, need-len(x))...)
			}
			copy(x[i*ps:], pg)
		}
		out = append(out, snap{fmt.Sprintf("%d of %d changed data pages written, meta pages not yet, file extended beforehand: %v", j, len(changed), grown), x})
	}
	return out
}

// runBounded runs a traced command in its own process group and kills the
// whole group when it has not exited after the limit.
func runBounded(cmd *exec.Cmd, limit time.Duration) (out []byte, err error, hung bool) {
	var buf bytes.Buffer
	cmd.Stdout, cmd.Stderr = &buf, &buf
	cmd.SysProcAttr = &syscall.SysProcAttr{Setpgid: true}
	if err := cmd.Start(); err != nil {
		return nil, err, false
	}
	done := make(chan error, 1)
	go func() { done <- cmd.Wait() }()
	select {
	case err = <-done:
	case <-time.After(limit):
		hung = true
		syscall.Kill(-cmd.Process.Pid, syscall.SIGKILL)
		err = <-done
	}
	return buf.Bytes(), err, hung
}

var writeClass = "pwrite64,fdatasync,fsync,ftruncate,write"

func killCreate(c *Case, dir string, rows []model.Row, d *model.Data, uniq string) (facts, error) {
	var f facts
	cols := d.Columns()
	if len(cols) == 0 {
		cols = []string{"a"}
	}
	in := filepath.Join(dir, "in.csv")
	if err := fix.WriteCSV(in, cols, rows); err != nil {
		return f, err
	}
	out := filepath.Join(dir, "out.updog")
	args := []string{"create", "-o", out}
	if c.Big {
		args = append(args, "-b")
	}
	args = append(args, in)
	env := append(os.Environ(), "TMPDIR="+dir)
	if c.Fault != "" {
		// strace counts calls per thread: with one P nearly all writes of the
		// command come from one thread, so that "the k-th call" of the counting
		// run and of the faulted run are the same call
		env = append(env, "GOMAXPROCS=1")
	}
	finished := false
	switch c.Mode {
	case "kill-delay":
		// measure a full run first (its output is discarded)
		t0 := time.Now()
		r := fix.RunCLI(dir, 120*time.Second, []string{"TMPDIR=" + dir}, args...)
		full := time.Since(t0)
		if r.Exit != 0 {
			return f, fmt.Errorf("INFRA: unkilled `updog create` failed: exit %d: %s", r.Exit, r.Out)
		}
		os.Remove(out)
		cmd := exec.Command(fix.UpdogBin(), args...)
		cmd.Env = env
		if err := cmd.Start(); err != nil {
			return f, fmt.Errorf("INFRA: %v", err)
		}
		time.Sleep(full * time.Duration(c.Frac) / 1000)
		cmd.Process.Signal(syscall.SIGKILL)
		err := cmd.Wait()
		finished = err == nil
		f.killedAt = fmt.Sprintf("delay %d‰", c.Frac)
	case "kill-at-size":
		// SIGKILL as soon as the output file has reached a fraction of its final
		// size (0 = as soon as it exists): aims at the states in which a partial
		// output exists
		r := fix.RunCLI(dir, 120*time.Second, []string{"TMPDIR=" + dir}, args...)
		if r.Exit != 0 {
			return f, fmt.Errorf("INFRA: unkilled `updog create` failed: exit %d: %s", r.Exit, r.Out)
		}
		st, err := os.Stat(out)
		if err != nil {
			return f, fmt.Errorf("INFRA: %v", err)
		}
		final := st.Size()
		os.Remove(out)
		cmd := exec.Command(fix.UpdogBin(), args...)
		cmd.Env = env
		if err := cmd.Start(); err != nil {
			return f, fmt.Errorf("INFRA: %v", err)
		}
		done := make(chan error, 1)
		go func() { done <- cmd.Wait() }()
		threshold := final * int64(c.Frac) / 1000
		killed := false
	poll:
		for {
			select {
			case err := <-done:
				finished = err == nil
				break poll
			default:
			}
			if st, err := os.Stat(out); err == nil && st.Size() >= threshold {
				cmd.Process.Signal(syscall.SIGKILL)
				err := <-done
				finished = err == nil
				killed = true
				break poll
			}
			time.Sleep(100 * time.Microsecond)
		}
		f.killedAt = fmt.Sprintf("output reached %d‰ of its final %d bytes (killed=%v)", c.Frac, final, killed)
	case "kill-syscall":
		if c.When < 0 {
			// per-mille of the run: count the write-class syscalls per thread in
			// an unkilled traced run first, then kill at that fraction of the
			// busiest thread's count
			plog := filepath.Join(dir, "strace-count.log")
			pre := exec.Command("strace", append([]string{"-f", "-o", plog, "-e", "trace=" + writeClass, fix.UpdogBin()}, args...)...)
			pre.Env = env
			if outb, err := pre.CombinedOutput(); err != nil {
				return f, fmt.Errorf("INFRA: counting run failed: %v: %s", err, outb)
			}
			os.Remove(out)
			per := map[string]int{}
			lb, _ := os.ReadFile(plog)
			for _, line := range strings.Split(string(lb), "\n") {
				if i := strings.IndexByte(line, ' '); i > 0 && strings.Contains(line, "(") {
					per[line[:i]]++
				}
			}
			max := 1
			for _, n := range per {
				if n > max {
					max = n
				}
			}
			c.When = 1 + max*(-c.When)/1000
		}
		log := filepath.Join(dir, "strace.log")
		inject := fmt.Sprintf("inject=%s:signal=KILL:when=%d", writeClass, c.When)
		if c.Fault != "" {
			inject = fmt.Sprintf("inject=%s:error=%s:when=%d", writeClass, c.Fault, c.When)
			if c.Persist {
				inject += "+"
			}
		}
		sargs := append([]string{"-f", "-o", log, "-e", "trace=" + writeClass,
			"-e", inject, fix.UpdogBin()}, args...)
		cmd := exec.Command("strace", sargs...)
		cmd.Env = env
		outb, err, hung := runBounded(cmd, 90*time.Second)
		finished = err == nil && !hung
		lb, _ := os.ReadFile(log)
		if len(lb) == 0 && err != nil && !strings.Contains(string(outb), "killed") {
			return f, fmt.Errorf("INFRA: strace failed: %v: %s", err, outb)
		}
		n := len(regexp.MustCompile(`(?m)^\d+ +(pwrite64|fdatasync|fsync|ftruncate|write)\(.*= \d+`).FindAll(lb, -1))
		f.killedAt = fmt.Sprintf("%d write-class syscalls completed", n)
		if c.Fault != "" {
			nf := len(regexp.MustCompile(`(?m)= -1 `+c.Fault+` .*\(INJECTED\)`).FindAll(lb, -1))
			f.killedAt = fmt.Sprintf("%d write-class syscalls completed, %d failed with %s, exit 0: %v", n, nf, c.Fault, finished)
			if hung {
				// no listed property says that create terminates after a failed
				// write; the file it had produced by then is examined like the
				// remainder of a kill
				f.killedAt += ", did not exit within 90 s and was killed by the harness"
			}
			f.faulted = nf > 0
		}
	}
	content, err := os.ReadFile(out)
	if err != nil {
		return f, nil // absent: trivially fine
	}
	f.partial = !finished && len(content) > 0
	what := "file left by killed `updog create" + map[bool]string{true: " -b", false: ""}[c.Big] + "` (" + f.killedAt + ")"
	acc, cerr := checkCrashFile(dir, content, d, uniq, what)
	if cerr != nil {
		// make the violation replayable without a process: carry the file
		if len(content) <= 4<<20 {
			c.File = content
			c.Mode = "file"
		}
		return f, cerr
	}
	if finished && !acc {
		if len(content) <= 4<<20 {
			c.File, c.Mode, c.Finished = content, "file", true
		}
		return f, fmt.Errorf("`updog create` exited 0 but OpenIndex rejects its output")
	}
	return f, nil
}

func run(t interface{ Fatalf(string, ...any) }, c *Case) {
	sum, mode := c.Summary(), c.Mode
	if c.Fault != "" {
		mode = "fault-syscall"
	}
	f, err := oracle(c)
	if err != nil && strings.HasPrefix(err.Error(), "INFRA:") {
		panic(err.Error())
	}
	cl := []string{"mode:" + mode}
	nt := f.midpoints > 0 || f.partial
	if c.Fault != "" {
		// non-trivial: a write really failed (whatever the command then did)
		nt = f.faulted
		if f.faulted {
			cl = append(cl, "write-failed:"+c.Fault)
		}
	}
	if f.midpoints > 0 {
		cl = append(cl, "multi-commit-write")
	}
	if f.partial {
		cl = append(cl, "killed-with-partial-output")
	}
	evid.Note("crash_points_examined", int64(f.points))
	evid.Note("crash_points_between_first_and_last_commit", int64(f.midpoints))
	evid.Note("torn_write_states_examined", int64(f.torn))
	if f.torn > 0 {
		cl = append(cl, "torn-bursts")
	}
	evid.Case(nt, sum+" "+f.killedAt, cl...)
	if err != nil {
		fix.Fail(t, prop, "crash", c, c.Summary(), err)
	}
}

// dataset on both sides of the 1000-value / 1000-row batch sizes; all columns
// always present (the CSV path needs rectangular data)
func drawData(t *rapid.T, maxN int) gen.DataSpec {
	if maxN >= 3100 && rapid.IntRange(0, 7).Draw(t, "largebitmaps") == 0 {
		// a few bitmaps of more than a page (over 2048 scattered rows each)
		// among thousands of one-row bitmaps, the total number of values a
		// little below or above a multiple of the batch size
		n := 1000*rapid.IntRange(5, 9).Draw(t, "thousands") + rapid.IntRange(-6, 3).Draw(t, "off")
		return gen.DataSpec{Recipe: &gen.Recipe{N: n, Cols: []gen.ColSpec{
			{Name: "a", Kind: gen.KMod, K: rapid.IntRange(2, 3).Draw(t, "klarge"), Prefix: "v"},
			{Name: "u", Prefix: "r", Kind: gen.KUnique}}}}
	}
	n := rapid.SampledFrom([]int{0, 1, 2, 500, 999, 1000, 1001, 1001, 1002, 1002, 2001, 2001, 2500, 2500, 3100, 3100}).Draw(t, "n")
	if n > maxN {
		n = maxN
	}
	r := &gen.Recipe{N: n}
	r.Cols = append(r.Cols, gen.ColSpec{Name: "a", Kind: gen.KMod, K: rapid.SampledFrom([]int{1, 3, 999, 1000, 1001, 2500}).Draw(t, "ka"), Prefix: "v"})
	if rapid.Bool().Draw(t, "b") {
		r.Cols = append(r.Cols, gen.ColSpec{Name: "b", Kind: gen.KDiv, K: rapid.SampledFrom([]int{1, 2, 7, 1000}).Draw(t, "kb")})
	}
	if rapid.IntRange(0, 2).Draw(t, "u") > 0 {
		r.Cols = append(r.Cols, gen.ColSpec{Name: "u", Prefix: "r", Kind: gen.KUnique})
	}
	return gen.DataSpec{Recipe: r}
}

// drawFault: one write-class syscall of `updog create` (or every one from
// there on) fails with an errno a full or broken disk produces.
func drawFault(t *rapid.T, maxN, maxWhen int) *Case {
	return &Case{Data: drawData(t, maxN), Mode: "kill-syscall", Big: rapid.Bool().Draw(t, "big"),
		// absolute (early calls) or, negative, a per-mille of the busiest
		// thread's number of write-class calls in an unfaulted traced run, so
		// that the last commit is reached as often as the first
		When:    rapid.OneOf(rapid.IntRange(1, maxWhen), rapid.IntRange(-1000, -1), rapid.IntRange(-1000, -800), rapid.IntRange(-1000, -800)).Draw(t, "when"),
		Fault:   rapid.SampledFrom([]string{"ENOSPC", "ENOSPC", "EIO", "EDQUOT"}).Draw(t, "errno"),
		Persist: rapid.Bool().Draw(t, "persist")}
}

func replay(cf *evid.CaseFile) error {
	var c Case
	if err := evid.Decode(cf.Gob, &c); err != nil {
		return fmt.Errorf("undecodable case: %v", err)
	}
	_, err := oracle(&c)
	return err
}

func prelude(t *testing.T) {
	// total number of distinct values exactly 1000k-1, 1000k, 1000k+1, 1000k+2
	for _, n := range []int{998, 999, 1000, 1001, 1999, 2000, 2001, 3000} {
		for w := 0; w < fix.NWriters; w++ {
			spec := gen.DataSpec{Recipe: &gen.Recipe{N: n, Cols: []gen.ColSpec{
				{Name: "u", Prefix: "r", Kind: gen.KUnique}, {Name: "k", Kind: gen.KConst, Prefix: "all"}}}}
			run(t, &Case{Data: spec, Mode: "commit-points", Writer: w, Torn: uint64(n + 1)})
		}
	}
	// more than 1 MiB of bitmap data (about 75,000 distinct values): writers
	// that bound their transactions by size commit several times here
	for _, w := range []int{fix.WBig, fix.WMemFile} {
		n := 75000
		if w == fix.WBig {
			n = 160000 // more than 2 MiB of bitmap data also through the big writer
		}
		spec := gen.DataSpec{Recipe: &gen.Recipe{N: n, Cols: []gen.ColSpec{
			{Name: "u", Prefix: "row-number-", Kind: gen.KUnique}, {Name: "a", Kind: gen.KMod, K: 7, Prefix: "v"}}}}
		run(t, &Case{Data: spec, Mode: "commit-points", Writer: w})
	}
	// 150 values whose bitmaps are 40 KiB each and do not compress (every
	// tenth row over 300,000 rows: five full bitmap containers), 6 MiB
	// together, among 1200 small ones: writers that treat large bitmaps
	// separately, or bound a transaction by size, commit differently here
	for _, w := range []int{fix.WMemFile} {
		cols := []gen.ColSpec{{Name: "id", Kind: gen.KMod, K: 1200, Prefix: "i"}}
		for j := 0; j < 15; j++ {
			cols = append(cols, gen.ColSpec{Name: fmt.Sprintf("c%02d", j), Kind: gen.KMod, K: 10, Prefix: "d"})
		}
		run(t, &Case{Data: gen.DataSpec{Recipe: &gen.Recipe{N: 300000, Cols: cols}}, Mode: "commit-points", Writer: w})
	}
	// three bitmaps of more than a page among 1000k-3 .. 1000k+1 small ones
	for _, n := range []int{6997, 6998, 6999, 7000, 7001} {
		for _, w := range []int{fix.WMemFile, fix.WMemBolt} {
			spec := gen.DataSpec{Recipe: &gen.Recipe{N: n, Cols: []gen.ColSpec{
				{Name: "a", Kind: gen.KMod, K: 3, Prefix: "v"}, {Name: "u", Prefix: "r", Kind: gen.KUnique}}}}
			run(t, &Case{Data: spec, Mode: "commit-points", Writer: w})
		}
	}
	// a 160,000-record CSV (more than 2 MiB of key/value data, a file of 16 MiB
	// that grows in two steps) killed when the output has reached 3/4 of its
	// final size, in both modes
	for _, big := range []bool{false, true} {
		spec := gen.DataSpec{Recipe: &gen.Recipe{N: 160000, Cols: []gen.ColSpec{
			{Name: "u", Prefix: "row-number-", Kind: gen.KUnique}, {Name: "a", Kind: gen.KMod, K: 7, Prefix: "v"}}}}
		run(t, &Case{Data: spec, Mode: "kill-at-size", Big: big, Frac: 750})
	}
	for _, n := range []int{0, 1, 1001, 2500} {
		for w := 0; w < fix.NWriters; w++ {
			spec := gen.DataSpec{Recipe: &gen.Recipe{N: n, Cols: []gen.ColSpec{
				{Name: "a", Kind: gen.KMod, K: 3, Prefix: "v"}, {Name: "u", Prefix: "r", Kind: gen.KUnique}}}}
			run(t, &Case{Data: spec, Mode: "commit-points", Writer: w, Torn: uint64(n + 1)})
		}
	}
}

func TestQuick(t *testing.T) {
	fix.Pinned(t, prop, replay)
	prelude(t)
	fix.Check(t, "commit-points", 12, func(rt *rapid.T) {
		run(rt, &Case{Data: drawData(rt, 3100), Mode: "commit-points", Writer: rapid.IntRange(0, fix.NWriters-1).Draw(rt, "writer"), Torn: rapid.Uint64().Draw(rt, "torn")})
	})
	fix.Check(t, "kill-syscall", 25, func(rt *rapid.T) {
		run(rt, &Case{Data: drawData(rt, 2500), Mode: "kill-syscall", Big: rapid.Bool().Draw(rt, "big"), When: rapid.IntRange(1, 40).Draw(rt, "when")})
	})
	// an index of several MiB (so that any copying/compaction phase spans many
	// syscalls), killed at write-class syscalls spread over the whole run
	fix.Check(t, "kill-syscall-big", 3, func(rt *rapid.T) {
		spec := gen.DataSpec{Recipe: &gen.Recipe{N: 40000, Cols: []gen.ColSpec{
			{Name: "u", Prefix: "row-number-", Kind: gen.KUnique}, {Name: "a", Kind: gen.KMod, K: 7, Prefix: "v"}}}}
		run(rt, &Case{Data: spec, Mode: "kill-syscall", Big: rapid.Bool().Draw(rt, "big"), When: -rapid.IntRange(1, 1000).Draw(rt, "permille")})
	})
	fix.Check(t, "fault-syscall", 60, func(rt *rapid.T) { run(rt, drawFault(rt, 2500, 40)) })
	fix.Check(t, "kill-at-size", 20, func(rt *rapid.T) {
		run(rt, &Case{Data: drawData(rt, 3100), Mode: "kill-at-size", Big: rapid.Bool().Draw(rt, "big"), Frac: rapid.IntRange(0, 999).Draw(rt, "frac")})
	})
	fix.Check(t, "kill-at-size-big", 12, func(rt *rapid.T) {
		spec := gen.DataSpec{Recipe: &gen.Recipe{N: 40000, Cols: []gen.ColSpec{
			{Name: "u", Prefix: "row-number-", Kind: gen.KUnique}, {Name: "a", Kind: gen.KMod, K: 7, Prefix: "v"}}}}
		run(rt, &Case{Data: spec, Mode: "kill-at-size", Big: rapid.IntRange(0, 2).Draw(rt, "big") == 0, Frac: rapid.IntRange(0, 999).Draw(rt, "frac")})
	})
	// --big mode with enough distinct values that the bitmaps alone exceed 1 MiB
	fix.Check(t, "kill-at-size-bigmode", 5, func(rt *rapid.T) {
		spec := gen.DataSpec{Recipe: &gen.Recipe{N: 90000, Cols: []gen.ColSpec{
			{Name: "u", Prefix: "row-number-", Kind: gen.KUnique}, {Name: "a", Kind: gen.KMod, K: 7, Prefix: "v"}}}}
		run(rt, &Case{Data: spec, Mode: "kill-at-size", Big: true, Frac: rapid.IntRange(20, 980).Draw(rt, "frac")})
	})
	fix.Check(t, "kill-delay", 15, func(rt *rapid.T) {
		run(rt, &Case{Data: drawData(rt, 3100), Mode: "kill-delay", Big: rapid.Bool().Draw(rt, "big"), Frac: rapid.IntRange(0, 1100).Draw(rt, "frac")})
	})
}

func TestThorough(t *testing.T) {
	if shard, _ := evid.Shard(); shard == 0 {
		fix.Pinned(t, prop, replay)
		prelude(t)
	}
	fix.Check(t, "commit-points", 60, func(rt *rapid.T) {
		run(rt, &Case{Data: drawData(rt, 3100), Mode: "commit-points", Writer: rapid.IntRange(0, fix.NWriters-1).Draw(rt, "writer"), Torn: rapid.Uint64().Draw(rt, "torn")})
	})
	fix.Check(t, "kill-syscall", 200, func(rt *rapid.T) {
		run(rt, &Case{Data: drawData(rt, 3100), Mode: "kill-syscall", Big: rapid.Bool().Draw(rt, "big"), When: rapid.IntRange(1, 60).Draw(rt, "when")})
	})
	fix.Check(t, "kill-syscall-big", 40, func(rt *rapid.T) {
		spec := gen.DataSpec{Recipe: &gen.Recipe{N: 40000, Cols: []gen.ColSpec{
			{Name: "u", Prefix: "row-number-", Kind: gen.KUnique}, {Name: "a", Kind: gen.KMod, K: 7, Prefix: "v"}}}}
		run(rt, &Case{Data: spec, Mode: "kill-syscall", Big: rapid.Bool().Draw(rt, "big"), When: -rapid.IntRange(1, 1000).Draw(rt, "permille")})
	})
	fix.Check(t, "fault-syscall", 300, func(rt *rapid.T) { run(rt, drawFault(rt, 3100, 60)) })
	fix.Check(t, "kill-at-size", 100, func(rt *rapid.T) {
		run(rt, &Case{Data: drawData(rt, 3100), Mode: "kill-at-size", Big: rapid.Bool().Draw(rt, "big"), Frac: rapid.IntRange(0, 999).Draw(rt, "frac")})
	})
	fix.Check(t, "kill-at-size-big", 40, func(rt *rapid.T) {
		spec := gen.DataSpec{Recipe: &gen.Recipe{N: rapid.SampledFrom([]int{40000, 90000, 150000}).Draw(rt, "bign"), Cols: []gen.ColSpec{
			{Name: "u", Prefix: "row-number-", Kind: gen.KUnique}, {Name: "a", Kind: gen.KMod, K: 7, Prefix: "v"}}}}
		run(rt, &Case{Data: spec, Mode: "kill-at-size", Big: rapid.Bool().Draw(rt, "big"), Frac: rapid.IntRange(0, 999).Draw(rt, "frac")})
	})
	fix.Check(t, "kill-at-size-bigmode", 25, func(rt *rapid.T) {
		spec := gen.DataSpec{Recipe: &gen.Recipe{N: rapid.SampledFrom([]int{90000, 150000}).Draw(rt, "n"), Cols: []gen.ColSpec{
			{Name: "u", Prefix: "row-number-", Kind: gen.KUnique}, {Name: "a", Kind: gen.KMod, K: 7, Prefix: "v"}}}}
		run(rt, &Case{Data: spec, Mode: "kill-at-size", Big: true, Frac: rapid.IntRange(20, 980).Draw(rt, "frac")})
	})
	fix.Check(t, "kill-delay", 120, func(rt *rapid.T) {
		run(rt, &Case{Data: drawData(rt, 3100), Mode: "kill-delay", Big: rapid.Bool().Draw(rt, "big"), Frac: rapid.IntRange(0, 1100).Draw(rt, "frac")})
	})
}

func TestReplay(t *testing.T) {
	cf := fix.ReplayFile(t)
	if err := replay(cf); err != nil {
		t.Fatalf("replay of %s/%s fails: %v", cf.Property, cf.Sub, err)
	}
}
