// C03 — result caches are transparent and evaluation is side-effect free.
package c03

import (
	"fmt"
	"os"
	"reflect"
	"strings"
	"testing"

	"github.com/akrennmair/updog"
	"github.com/akrennmair/updog/verifharness/evid"
	"github.com/akrennmair/updog/verifharness/fix"
	"github.com/akrennmair/updog/verifharness/gen"
	"github.com/akrennmair/updog/verifharness/model"
	"pgregory.net/rapid"
)

const prop = "C03"

func TestMain(m *testing.M) { fix.Main(m) }

type Q struct {
	Expr    model.Expr
	GroupBy []string
	Kind    string // how it was derived (evidence only)
}

// Case: one dataset, one open configuration, a history of queries executed in
// order on the same handle.
type Case struct {
	Data    gen.DataSpec
	Open    fix.OpenCfg
	Writer  int
	History []Q
}

func (c *Case) Summary() string {
	var b strings.Builder
	fmt.Fprintf(&b, "%s open=%s writer=%s history[%d]:", c.Data.Summary(), c.Open, fix.WriterName[c.Writer], len(c.History))
	for i, q := range c.History {
		if i >= 14 {
			b.WriteString(" …")
			break
		}
		fmt.Fprintf(&b, " %d:%s", i, q.Expr.String())
		if len(q.GroupBy) > 0 {
			fmt.Fprintf(&b, " GROUP BY %+q", q.GroupBy)
		}
		b.WriteString(";")
	}
	return b.String()
}

type stats struct{ hits, puts int64 }

func oracle(c *Case) (stats, error) {
	var st stats
	rows := c.Data.Rows()
	d := model.NewData(rows)
	dir := fix.CaseDir()
	defer os.RemoveAll(dir)
	path, _, err := fix.Build(dir, rows, c.Writer)
	if err != nil {
		return st, fmt.Errorf("build: %v", err)
	}
	refPath, err := fix.CopyFile(dir, path)
	if err != nil {
		return st, err
	}
	idx, cc, err := fix.Open(path, c.Open)
	if err != nil {
		return st, fmt.Errorf("open %s: %v", c.Open, err)
	}
	defer fix.Safe(idx.Close)
	ref, _, err := fix.Open(refPath, fix.OpenCfg{CacheCap: -1})
	if err != nil {
		return st, fmt.Errorf("open reference copy: %v", err)
	}
	defer func() { fix.Safe(ref.Close) }()
	// every result object handed out is kept and looked at again at the end:
	// a later query must not change a result that was already returned
	type kept struct {
		step int
		res  *updog.Result
		snap model.Result
	}
	var keptResults []kept
	for step, q := range c.History {
		res, err := fix.Exec(idx, fix.NewQuery(q.Expr, q.GroupBy))
		if err == nil && res != nil {
			keptResults = append(keptResults, kept{step, res, fix.FromResult(res)})
		}
		if step%8 == 7 {
			// literally "a freshly opened index without cache"
			fix.Safe(ref.Close)
			var oerr error
			ref, _, oerr = fix.Open(refPath, fix.OpenCfg{CacheCap: -1})
			if oerr != nil {
				return st, fmt.Errorf("reopen reference copy: %v", oerr)
			}
		}
		rres, rerr := fix.Exec(ref, fix.NewQuery(q.Expr, q.GroupBy))
		if fix.IsPanic(err) {
			return st, fmt.Errorf("step %d %s: %v", step, q.Expr.String(), err)
		}
		if (err == nil) != (rerr == nil) {
			return st, fmt.Errorf("step %d %s: configured index err=%v, fresh cache-less index err=%v", step, q.Expr.String(), err, rerr)
		}
		if err == nil && !reflect.DeepEqual(fix.FromResult(res), fix.FromResult(rres)) {
			return st, fmt.Errorf("step %d %s GROUP BY %+q: configured index returned %s, a fresh cache-less index returns %s", step, q.Expr.String(), q.GroupBy, short(fix.FromResult(res)), short(fix.FromResult(rres)))
		}
		if gen.HasEmptyNode(q.Expr) {
			// what an operator node without operands means is the library's
			// business; transparency of the cache was checked against the
			// cache-less handle above
			continue
		}
		if cerr := fix.CompareOutcome(d, q.Expr, q.GroupBy, res, err); cerr != nil {
			return st, fmt.Errorf("step %d %s GROUP BY %+q: %v", step, q.Expr.String(), q.GroupBy, cerr)
		}
	}
	for _, k := range keptResults {
		if now := fix.FromResult(k.res); !reflect.DeepEqual(now, k.snap) {
			return st, fmt.Errorf("the result returned at step %d (%s) was changed by later queries: it was %s, now it reads %s", k.step, c.History[k.step].Expr.String(), short(k.snap), short(now))
		}
	}
	if cc != nil {
		st.hits, st.puts = cc.Hit.N.Load(), cc.Put.N.Load()
	}
	return st, nil
}

func short(r model.Result) string {
	s := fmt.Sprintf("%+v", r)
	if len(s) > 300 {
		s = s[:300] + "…"
	}
	return s
}

func run(t interface{ Fatalf(string, ...any) }, c *Case) {
	defer fix.Track(prop, "history", c, c.Summary())()
	st, err := oracle(c)
	cl := []string{"cap:" + capClass(c.Open.CacheCap), fmt.Sprintf("preload:%v", c.Open.Preload)}
	kinds := map[string]bool{}
	for _, q := range c.History {
		if !kinds[q.Kind] {
			kinds[q.Kind] = true
			cl = append(cl, "kind:"+q.Kind)
		}
	}
	if st.hits > 0 {
		cl = append(cl, "had-cache-hit")
	}
	nt := st.hits > 0 && len(c.History) >= 3 && (kinds["confuse"] || kinds["repeat"])
	evid.Case(nt, c.Summary(), cl...)
	if err != nil {
		fix.Fail(t, prop, "history", c, c.Summary(), err)
	}
}

func capClass(n int64) string {
	switch {
	case n < 0:
		return "none"
	case n == 0:
		return "0"
	case n <= 400:
		return "tiny"
	case n <= 4000:
		return "few"
	}
	return "ample"
}

func drawCase(t *rapid.T, maxRecipe, maxHist int) *Case {
	return drawCaseN(t, maxRecipe, 2, maxHist)
}

// drawCaseN: minHist > 2 gives the long histories of the 'marathon' sub-check
// (hundreds of mostly distinct queries on one handle: tables that grow with
// the number of distinct queries, n-th call effects, full cache turnover).
func drawCaseN(t *rapid.T, maxRecipe, minHist, maxHist int) *Case {
	c := &Case{}
	c.Data = *gen.Dataset(t, gen.DataOpts{MaxRows: 30, MaxRecipeN: maxRecipe, RecipeProb: 15})
	c.Writer = rapid.IntRange(0, fix.NWriters-1).Draw(t, "writer")
	c.Open.Preload = rapid.Bool().Draw(t, "preload")
	c.Open.CacheCap = rapid.SampledFrom([]int64{-1, 0, 150, 300, 1200, 3000, 1 << 24, 1 << 24, 1 << 24}).Draw(t, "cap")
	d := model.NewData(c.Data.Rows())
	pool := gen.NewLeafPool(d).AllowEmptyName()
	var exprs []model.Expr
	n := rapid.IntRange(minHist, maxHist).Draw(t, "nhist")
	for i := 0; i < n; i++ {
		var q Q
		k := rapid.IntRange(0, 9).Draw(t, "act")
		switch {
		case i == 0 || k < 2:
			q = Q{Expr: pool.Expr(t, gen.ExprOpts{MaxDepth: 4}), Kind: "fresh"}
		case k < 7:
			q = Q{Expr: pool.Confuse(t, exprs, gen.ExprOpts{MaxDepth: 3, AllowEmpty: true}), Kind: "confuse"}
		case k < 9:
			q = c.History[rapid.IntRange(0, len(c.History)-1).Draw(t, "again")]
			q.Kind = "repeat"
		default:
			q = Q{Expr: pool.Expr(t, gen.ExprOpts{MaxDepth: 3, UnknownPct: 20}), Kind: "maybe-unknown"}
			if eps := pool.ErrorPrecedence(t); len(eps) > 0 && rapid.Bool().Draw(t, "errprec") {
				// an unknown column next to an operand that already decides the
				// node; its permutations follow through the confusers (a cached
				// "nothing matches" must not answer the permuted query)
				q = Q{Expr: eps[0], Kind: "maybe-unknown"}
				exprs = append(exprs, eps...)
			}
		}
		if q.Kind != "repeat" && rapid.IntRange(0, 3).Draw(t, "gb?") == 0 {
			q.GroupBy = pool.GroupBy(t, 3, 0)
			if c.Data.Recipe != nil && len(q.GroupBy) > 1 {
				q.GroupBy = q.GroupBy[:1]
			}
		}
		exprs = append(exprs, q.Expr)
		// sub-expressions also enter the pool, so that later queries share them
		for _, s := range q.Expr.Subs {
			exprs = append(exprs, s)
		}
		c.History = append(c.History, q)
	}
	return c
}

func replay(cf *evid.CaseFile) error {
	var c Case
	if err := evid.Decode(cf.Gob, &c); err != nil {
		return fmt.Errorf("undecodable case: %v", err)
	}
	_, err := oracle(&c)
	return err
}

func TestQuick(t *testing.T) {
	fix.Pinned(t, prop, replay)
	fix.Check(t, "history", 2000, func(rt *rapid.T) { run(rt, drawCase(rt, 6000, 25)) })
	fix.Check(t, "marathon", 4, func(rt *rapid.T) { run(rt, drawCaseN(rt, 3000, 300, 900)) })
}

func TestThorough(t *testing.T) {
	if shard, _ := evid.Shard(); shard == 0 {
		fix.Pinned(t, prop, replay)
	}
	fix.Check(t, "history", 2500, func(rt *rapid.T) { run(rt, drawCase(rt, 70000, 60)) })
	fix.Check(t, "marathon", 10, func(rt *rapid.T) { run(rt, drawCaseN(rt, 6000, 500, 3000)) })
}

func TestReplay(t *testing.T) {
	cf := fix.ReplayFile(t)
	if err := replay(cf); err != nil {
		t.Fatalf("replay of %s/%s fails: %v", cf.Property, cf.Sub, err)
	}
}
