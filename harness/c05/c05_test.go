// C05 — flush/open round trip preserves rows, ids and schema; both writers agree.
package c05

import (
	"fmt"
	"os"
	"runtime"
	"strings"
	"syscall"
	"testing"
	"time"

	"github.com/akrennmair/updog"
	"github.com/akrennmair/updog/verifharness/evid"
	"github.com/akrennmair/updog/verifharness/fix"
	"github.com/akrennmair/updog/verifharness/gen"
	"github.com/akrennmair/updog/verifharness/model"
	"go.etcd.io/bbolt"
	"pgregory.net/rapid"
)

const prop = "C05"

func TestMain(m *testing.M) { fix.Main(m) }

// Case: rows (optionally tagged with a unique column), a sequence of open
// configurations (open, probe, close, reopen ...), extra expressions.
type Case struct {
	Data    gen.DataSpec
	Tag     bool // add a unique-per-row column "uid" to explicit rows
	Reopens []fix.OpenCfg
	Extra   []model.Expr
	// Bystanders: before the in-memory writer flushes to a file, valid
	// indexes of other content exist under names derived from the output name
	Bystanders bool
	// Abandon: see abandonOne
	Abandon bool
	// FullSweep: every (column,value) pair is probed, none strided over
	FullSweep bool
	// BigMisuse: see bigMisuse (0 = none)
	BigMisuse int
}

func (c *Case) Summary() string {
	var b strings.Builder
	fmt.Fprintf(&b, "%s tag=%v bystander-files=%v abandon-one=%v big-writer-misuse=%d opens=%v extra[%d]", c.Data.Summary(), c.Tag, c.Bystanders, c.Abandon, c.BigMisuse, c.Reopens, len(c.Extra))
	return b.String()
}

func (c *Case) rows() ([]model.Row, string) {
	rows := c.Data.Rows()
	if u := c.Data.UniqueCol(); u != "" {
		return rows, u
	}
	if !c.Tag {
		return rows, ""
	}
	out := make([]model.Row, len(rows))
	for i, r := range rows {
		nr := model.Row{"uid": fmt.Sprintf("r%d", i)}
		for k, v := range r {
			if k != "uid" {
				nr[k] = v
			}
		}
		out[i] = nr
	}
	return out, "uid"
}

func oracle(c *Case) error {
	rows, uniq := c.rows()
	d := model.NewData(rows)
	dir := fix.CaseDir()
	defer os.RemoveAll(dir)
	var gbs [][]string
	if uniq != "" && len(rows) <= 300 {
		for _, col := range d.Columns() {
			if col != uniq {
				gbs = append(gbs, []string{uniq, col})
			}
		}
	}
	for w := 0; w < fix.NWriters; w++ {
		var path string
		var ids []uint32
		var err error
		if c.Bystanders && w == fix.WMemFile {
			// valid indexes of other content wait under names derived from the
			// output name (what an interrupted earlier run, an editor or a backup
			// tool leaves behind); none of it may end up in the new index
			path = fix.TempPath(dir, "idx-with-bystanders") + ".updog"
			stale := []model.Row{{"stale": "value"}, {"stale": "other", "left": "over"}}
			for r := range rows {
				for k, v := range rows[r] {
					stale = append(stale, model.Row{k: v + "~stale"})
					break
				}
				if r > 3 {
					break
				}
			}
			for _, sfx := range []string{".tmp", "~", ".new", ".bak", ".lock"} {
				if _, err := fix.BuildAt(path+sfx, stale, fix.WMemFile); err != nil {
					return fmt.Errorf("INFRA: %v", err)
				}
			}
			ids, err = fix.BuildAt(path, rows, w)
		} else {
			path, ids, err = fix.Build(dir, rows, w)
		}
		if err != nil {
			return fmt.Errorf("writer %s: build failed: %v", fix.WriterName[w], err)
		}
		if len(ids) != len(rows) {
			return fmt.Errorf("writer %s: %d ids for %d AddRow calls", fix.WriterName[w], len(ids), len(rows))
		}
		for i, id := range ids {
			if id != uint32(i) {
				return fmt.Errorf("writer %s: AddRow call #%d returned id %d", fix.WriterName[w], i, id)
			}
		}
		for k, oc := range c.Reopens {
			idx, _, err := fix.Open(path, oc)
			if err != nil {
				return fmt.Errorf("writer %s: open #%d (%s): %v", fix.WriterName[w], k, oc, err)
			}
			extra := c.Extra
			if c.Bystanders {
				// what the bystander files hold must be unknown to the new index
				extra = append(append([]model.Expr(nil), extra...), model.Eq("stale", "value"), model.Or(model.Eq("left", "over"), model.Eq("stale", "other")))
				for r := range rows {
					for k, v := range rows[r] {
						extra = append(extra, model.Eq(k, v+"~stale"))
					}
					if r > 3 {
						break
					}
				}
			}
			po := fix.ProbeOpts{Unique: uniq, Extra: extra, ExtraGB: gbs}
			if c.FullSweep {
				po.MaxValues = 1 << 30
			}
			perr := fix.ProbeAll(idx, d, po)
			cerr := fix.Safe(idx.Close)
			if perr != nil {
				return fmt.Errorf("writer %s, open #%d (%s): %v", fix.WriterName[w], k, oc, perr)
			}
			if cerr != nil {
				return fmt.Errorf("writer %s, close #%d: %v", fix.WriterName[w], k, cerr)
			}
		}
		if c.BigMisuse > 0 && w == fix.WBig {
			if err := bigMisuse(dir, rows, c.BigMisuse); err != nil {
				return err
			}
		}
		if c.Abandon {
			// two Index objects on one caller-owned bbolt handle; the first is
			// dropped without Close and the garbage collector runs: the second
			// must keep answering (an Index does not own a database it was given,
			// and nothing may be released behind the back of a live one)
			if err := abandonOne(path, d, uniq); err != nil {
				return fmt.Errorf("writer %s: %v", fix.WriterName[w], err)
			}
		}
		os.Remove(path)
	}
	return nil
}

// bigMisuse: the big writer used in a legal but unexpected order.  Whatever
// Flush then does, if it returns nil the output must be the complete index of
// all rows whose AddRow returned without error.
//
//	kind 1: AddRow..., Close, Flush
//	kind 2: AddRow..., Flush, Flush
//	kind 3: AddRow (some under a file size limit that makes a temp commit fail), ..., Flush
func bigMisuse(dir string, rows []model.Row, kind int) error {
	return fix.Safe(func() error {
		out, tmp := fix.TempPath(dir, "big-misuse")+".updog", fix.TempPath(dir, "big-misuse")+".tmp"
		tdb, err := bbolt.Open(tmp, 0o600, nil)
		if err != nil {
			return fmt.Errorf("INFRA: %v", err)
		}
		defer tdb.Close()
		db, err := bbolt.Open(out, 0o644, nil)
		if err != nil {
			return fmt.Errorf("INFRA: %v", err)
		}
		w, err := updog.NewBigIndexWriter(db, tdb)
		if err != nil {
			db.Close()
			return fmt.Errorf("NewBigIndexWriter: %v", err)
		}
		defer w.Close()
		var added []model.Row
		addAll := func(rs []model.Row) {
			for _, r := range rs {
				// an AddRow that returns an error or panics did not add the row;
				// how usable the writer is after such a failure is no listed
				// property's business - only what a nil from Flush promises is
				if err := fix.Safe(func() error { _, e := w.AddRow(r); return e }); err == nil {
					added = append(added, r)
				}
			}
		}
		var ferr error
		switch kind {
		case 1:
			addAll(rows)
			w.Close()
			ferr = fix.Safe(w.Flush)
		case 2:
			addAll(rows)
			if err := w.Flush(); err != nil {
				db.Close()
				return fmt.Errorf("first Flush: %v", err)
			}
			ferr = fix.Safe(w.Flush)
		default:
			third := len(rows) / 3
			addAll(rows[:third])
			// the temp database cannot grow for a while: commits of the temp
			// transaction (every 1000 rows) fail with EFBIG
			withFileSizeLimit(1, func() error { addAll(rows[third : 2*third]); return nil })
			addAll(rows[2*third:])
			ferr = fix.Safe(w.Flush)
		}
		db.Close()
		if ferr != nil {
			return nil // refusing is fine
		}
		d := model.NewData(added)
		idx, _, oerr := fix.Open(out, fix.OpenCfg{CacheCap: -1})
		if oerr != nil {
			return fmt.Errorf("big writer misuse %d: Flush returned nil but the output does not open: %v", kind, oerr)
		}
		defer fix.Safe(idx.Close)
		if len(added) < len(rows) {
			// some AddRow calls failed: whether such a row is (partly) in the
			// index is nobody's promise; the rows whose AddRow succeeded are
			n := 0
			for _, c := range d.Columns() {
				for _, v := range d.Values(c) {
					if n++; n > 3000 {
						break
					}
					res, err := fix.Exec(idx, fix.NewQuery(model.Eq(c, v), nil))
					if err != nil {
						return fmt.Errorf("big writer misuse %d: Flush returned nil; %+q=%+q was added by successful AddRow calls but the index answers: %v", kind, c, v, err)
					}
					if want := uint64(d.ValueCount(c, v)); res.Count < want {
						return fmt.Errorf("big writer misuse %d (temp commits failing for a while): Flush returned nil; %+q=%+q was added to %d rows by AddRow calls that returned without error, the index holds it for %d", kind, c, v, want, res.Count)
					}
				}
			}
			return nil
		}
		if perr := fix.ProbeAll(idx, d, fix.ProbeOpts{MaxRows: 500, MaxValues: 3000}); perr != nil {
			return fmt.Errorf("big writer misuse %d (1 Close before Flush, 2 Flush twice, 3 temp commits failing for a while): Flush returned nil, %d of %d AddRow calls had returned without error, but the output is not the index of those rows: %v", kind, len(added), len(rows), perr)
		}
		return nil
	})
}

func withFileSizeLimit(limit int, f func() error) error {
	var old syscall.Rlimit
	const rlimitFsize = 1
	if err := syscall.Getrlimit(rlimitFsize, &old); err != nil {
		return f()
	}
	low := old
	low.Cur = uint64(limit)
	if err := syscall.Setrlimit(rlimitFsize, &low); err != nil {
		return f()
	}
	defer syscall.Setrlimit(rlimitFsize, &old)
	return f()
}

func abandonOne(path string, d *model.Data, uniq string) error {
	return fix.Safe(func() error {
		db, err := bbolt.Open(path, 0o644, &bbolt.Options{ReadOnly: true})
		if err != nil {
			return fmt.Errorf("INFRA: %v", err)
		}
		defer db.Close()
		first, err := updog.OpenIndexFromBoltDatabase(db)
		if err != nil {
			return fmt.Errorf("OpenIndexFromBoltDatabase: %v", err)
		}
		second, err := updog.OpenIndexFromBoltDatabase(db)
		if err != nil {
			return fmt.Errorf("second OpenIndexFromBoltDatabase on the same handle: %v", err)
		}
		if _, err := fix.Exec(first, fix.NewQuery(model.Not(model.Eq("no such column", "x")), nil)); err == nil {
			return fmt.Errorf("query on an unknown column succeeded")
		}
		first = nil
		for i := 0; i < 3; i++ {
			runtime.GC()
			time.Sleep(2 * time.Millisecond)
		}
		if perr := fix.ProbeAll(second, d, fix.ProbeOpts{Unique: uniq, MaxRows: 300, MaxValues: 300}); perr != nil {
			return fmt.Errorf("after another Index on the same bbolt handle was dropped (not closed) and the garbage collector ran: %v", perr)
		}
		runtime.KeepAlive(second)
		return nil
	})
}

func classify(c *Case) (bool, []string) {
	rows, uniq := c.rows()
	d := model.NewData(rows)
	n := len(rows)
	cl := []string{fmt.Sprintf("opens:%d", len(c.Reopens))}
	if uniq != "" {
		cl = append(cl, "unique-column")
	}
	if n > 1000 {
		cl = append(cl, "rows>1000")
	}
	if n > 2000 {
		cl = append(cl, "rows>2000")
	}
	if d.DistinctValues() > 1000 {
		cl = append(cl, "distinct>1000")
	}
	if d.DistinctValues() > 2000 {
		cl = append(cl, "distinct>2000")
	}
	if c.Data.Recipe != nil {
		cl = append(cl, "mode:recipe")
	} else {
		cl = append(cl, "mode:explicit")
	}
	return n >= 2 && d.DistinctValues() >= 2, cl
}

func run(t interface{ Fatalf(string, ...any) }, c *Case) {
	defer fix.Track(prop, "roundtrip", c, c.Summary())()
	nt, cl := classify(c)
	evid.Case(nt, c.Summary(), cl...)
	if err := oracle(c); err != nil {
		fix.Fail(t, prop, "roundtrip", c, c.Summary(), err)
	}
}

func drawCase(t *rapid.T, o gen.DataOpts) *Case {
	ds := gen.Dataset(t, o)
	c := &Case{Data: *ds, Tag: rapid.Bool().Draw(t, "tag"), Bystanders: rapid.IntRange(0, 3).Draw(t, "bystanders") == 0, Abandon: rapid.IntRange(0, 4).Draw(t, "abandon") == 0}
	if rapid.IntRange(0, 3).Draw(t, "bigmisuse?") == 0 {
		c.BigMisuse = rapid.IntRange(1, 3).Draw(t, "bigmisuse")
	}
	rows, _ := c.rows()
	d := model.NewData(rows)
	pool := gen.NewLeafPool(d)
	k := rapid.IntRange(1, 4).Draw(t, "nopen")
	for i := 0; i < k; i++ {
		oc := fix.OpenCfg{Preload: rapid.Bool().Draw(t, "preload"), CacheCap: -1}
		if rapid.IntRange(0, 2).Draw(t, "alias") == 0 {
			oc.Via = rapid.IntRange(1, fix.NVia-1).Draw(t, "via")
		}
		if rapid.IntRange(0, 2).Draw(t, "cache") == 0 {
			oc.CacheCap = rapid.SampledFrom([]int64{0, 2000, 1 << 22}).Draw(t, "cap")
		}
		c.Reopens = append(c.Reopens, oc)
	}
	ne := rapid.IntRange(0, 10).Draw(t, "nextra")
	for i := 0; i < ne; i++ {
		c.Extra = append(c.Extra, pool.Expr(t, gen.UnknownSometimes(t)))
	}
	return c
}

// manyValues: more than 65,536 distinct values in one column, every one of
// them probed, on-demand and preloaded, for every writer.
func manyValues(t *testing.T, n int) {
	spec := gen.DataSpec{Recipe: &gen.Recipe{N: n, Cols: []gen.ColSpec{
		{Name: "u", Prefix: "r", Kind: gen.KUnique}, {Name: "g", Kind: gen.KMod, K: 3, Prefix: "p"}}}}
	run(t, &Case{Data: spec, FullSweep: true, Reopens: []fix.OpenCfg{{CacheCap: -1}, {Preload: true, CacheCap: -1}}})
}

// onlyEmptyRows: rows were added, but none has any column.
func onlyEmptyRows(t *testing.T) {
	for _, n := range []int{1, 3, 1001} {
		rows := make([]model.Row, n)
		for i := range rows {
			rows[i] = model.Row{}
		}
		run(t, &Case{Data: gen.DataSpec{Explicit: rows}, Reopens: []fix.OpenCfg{{CacheCap: -1}, {Preload: true, CacheCap: 1 << 20}}})
	}
}

func prelude(t *testing.T, sizes []int) {
	for wi, n := range sizes {
		spec := gen.DataSpec{Recipe: &gen.Recipe{N: n, Cols: []gen.ColSpec{
			{Name: "a", Kind: gen.KMod, K: 3, Prefix: "v"},
			{Name: "b", Kind: gen.KDiv, K: 2, Pres: gen.PModNot, P: 3}, // > n/2 distinct values
			{Name: "c", Kind: gen.KMod, K: 1500, Prefix: "\xff"},
			{Name: "u", Prefix: "r", Kind: gen.KUnique},
			{Name: "len", Kind: gen.KLen, K: gen.LenWindows[wi%len(gen.LenWindows)], R: 40},
			// values that hold for exactly n, 1000, 4096 and 65536 rows (buffer,
			// batch and container boundaries of the writers)
			{Name: "k", Kind: gen.KConst, Prefix: "all"},
			{Name: "b1k", Kind: gen.KDiv, K: 1000},
			{Name: "b4k", Kind: gen.KDiv, K: 4096},
			{Name: "b64k", Kind: gen.KDiv, K: 65536},
			{Name: "p2", Kind: gen.KPow2, Prefix: "blk"}, // values holding for exactly 1,2,4,...,2^k rows
			{Name: "b3k", Kind: gen.KDiv, K: 3000},
		}}}
		run(t, &Case{Data: spec, Reopens: []fix.OpenCfg{{CacheCap: -1}, {Preload: true, CacheCap: -1}, {CacheCap: 1 << 20}, {CacheCap: -1, Via: fix.ViaRelLink}, {Preload: true, CacheCap: -1, Via: fix.ViaLinkUp}}})
	}
}

// ---------------------------------------------------------------- write, add more, write again

// RewriteCase: the in-memory writer is written out, receives more rows (new
// values in existing columns, new columns, repeated values) and is written
// out again to a second database.  Each output must be exactly the rows added
// up to that point.
type RewriteCase struct {
	A, B     gen.DataSpec
	FlushTwo bool // second write through Flush (after moving the first file away) instead of WriteToBoltDatabase
}

func (c *RewriteCase) Summary() string {
	return fmt.Sprintf("rewrite: first %s; then %s; second-write-by-flush=%v", c.A.Summary(), c.B.Summary(), c.FlushTwo)
}

func rewriteOracle(c *RewriteCase) error {
	dir := fix.CaseDir()
	defer os.RemoveAll(dir)
	p1 := fix.TempPath(dir, "first") + ".updog"
	p2 := fix.TempPath(dir, "second") + ".updog"
	rowsA, rowsB := c.A.Rows(), c.B.Rows()
	var ids []uint32
	err := fix.Safe(func() error {
		w := updog.NewIndexWriter(p1)
		for _, r := range rowsA {
			id, err := w.AddRow(r)
			if err != nil {
				return err
			}
			ids = append(ids, id)
		}
		if err := w.Flush(); err != nil {
			return fmt.Errorf("first Flush: %v", err)
		}
		for _, r := range rowsB {
			id, err := w.AddRow(r)
			if err != nil {
				return err
			}
			ids = append(ids, id)
		}
		if c.FlushTwo {
			moved := p1 + ".moved"
			if err := os.Rename(p1, moved); err != nil {
				return err
			}
			if err := w.Flush(); err != nil {
				return fmt.Errorf("second Flush: %v", err)
			}
			p2, p1 = p1, moved
			return nil
		}
		db, err := bbolt.Open(p2, 0o644, nil)
		if err != nil {
			return err
		}
		defer db.Close()
		return w.WriteToBoltDatabase(db)
	})
	if err != nil {
		return err
	}
	for i, id := range ids {
		if id != uint32(i) {
			return fmt.Errorf("AddRow call #%d returned id %d", i, id)
		}
	}
	all := append(append([]model.Row(nil), rowsA...), rowsB...)
	for _, chk := range []struct {
		path string
		rows []model.Row
		what string
	}{{p1, rowsA, "first output (rows added before the first write)"}, {p2, all, "second output (all rows)"}} {
		for _, oc := range []fix.OpenCfg{{CacheCap: -1}, {Preload: true, CacheCap: -1}} {
			idx, _, err := fix.Open(chk.path, oc)
			if err != nil {
				return fmt.Errorf("%s: open %s: %v", chk.what, oc, err)
			}
			perr := fix.ProbeAll(idx, model.NewData(chk.rows), fix.ProbeOpts{})
			fix.Safe(idx.Close)
			if perr != nil {
				return fmt.Errorf("%s, open %s: %v", chk.what, oc, perr)
			}
		}
	}
	return nil
}

func runRewrite(t interface{ Fatalf(string, ...any) }, c *RewriteCase) {
	defer fix.Track(prop, "rewrite", c, c.Summary())()
	evid.Case(len(c.A.Rows()) > 0 && len(c.B.Rows()) > 0, c.Summary(), "rewrite")
	if err := rewriteOracle(c); err != nil {
		fix.Fail(t, prop, "rewrite", c, c.Summary(), err)
	}
}

func drawRewrite(t *rapid.T) *RewriteCase {
	c := &RewriteCase{FlushTwo: rapid.Bool().Draw(t, "flushtwo")}
	c.A = *gen.Dataset(t, gen.DataOpts{MaxRows: 20, IdentCols: true, MaxRecipeN: 2500, RecipeProb: 15})
	c.B = *gen.Dataset(t, gen.DataOpts{MaxRows: 20, IdentCols: true, MaxRecipeN: 2500, RecipeProb: 15})
	return c
}

func replay(cf *evid.CaseFile) error {
	if cf.Sub == "rewrite" {
		var c RewriteCase
		if err := evid.Decode(cf.Gob, &c); err != nil {
			return err
		}
		return rewriteOracle(&c)
	}
	var c Case
	if err := evid.Decode(cf.Gob, &c); err != nil {
		return fmt.Errorf("undecodable case: %v", err)
	}
	return oracle(&c)
}

func TestQuick(t *testing.T) {
	if shard, _ := evid.Shard(); shard == 0 {
		fix.Pinned(t, prop, replay)
		prelude(t, []int{0, 1, 2, 999, 1000, 1001, 1002, 2001, 3001, 4097})
		onlyEmptyRows(t)
	}
	if shard, _ := evid.Shard(); shard == 1 {
		manyValues(t, 70001)
	}
	fix.Check(t, "explicit", 100, func(rt *rapid.T) { run(rt, drawCase(rt, gen.DataOpts{MaxRows: 40})) })
	fix.Check(t, "recipe", 10, func(rt *rapid.T) {
		run(rt, drawCase(rt, gen.DataOpts{MaxRecipeN: 12000, RecipeProb: 100, Unique: true}))
	})
	fix.Check(t, "rewrite", 60, func(rt *rapid.T) { runRewrite(rt, drawRewrite(rt)) })
}

func TestThorough(t *testing.T) {
	shard, _ := evid.Shard()
	if shard == 0 {
		fix.Pinned(t, prop, replay)
		prelude(t, []int{0, 1, 2, 999, 1000, 1001, 1002, 2000, 2001, 3001, 4097, 65537})
	}
	if shard == 1 {
		manyValues(t, 70001)
		manyValues(t, 140003)
	}
	fix.Check(t, "explicit", 300, func(rt *rapid.T) { run(rt, drawCase(rt, gen.DataOpts{MaxRows: 60})) })
	fix.Check(t, "recipe", 30, func(rt *rapid.T) {
		run(rt, drawCase(rt, gen.DataOpts{MaxRecipeN: 150000, RecipeProb: 100, Unique: shard%2 == 0}))
	})
	fix.Check(t, "rewrite", 400, func(rt *rapid.T) { runRewrite(rt, drawRewrite(rt)) })
}

func TestReplay(t *testing.T) {
	cf := fix.ReplayFile(t)
	if err := replay(cf); err != nil {
		t.Fatalf("replay of %s/%s fails: %v", cf.Property, cf.Sub, err)
	}
}
