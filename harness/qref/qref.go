// Package qref is an independent recogniser and tree builder for updog's query
// text grammar, written from the EBNF in the header of
// internal/queryparser/queryparser.go.  It shares no code with the parser
// under test (own tokenizer, own recursive descent).
//
//	query       ::= expr [ ';' field-list ]
//	expr        ::= simple-expr | and-expr | or-expr
//	simple-expr ::= grouped-expr | not-expr | comparison
//	grouped-expr::= '(' expr ')'
//	and-expr    ::= simple-expr { '&' simple-expr }
//	or-expr     ::= simple-expr { '|' simple-expr }
//	not-expr    ::= '^' simple-expr
//	comparison  ::= field '=' ( value | placeholder )
//	field-list  ::= field { ',' field }
//	value       ::= '"' { any-character-except-quote | '""' } '"'
//	placeholder ::= '$' digit { digit }      (value 1 .. 2^31-1)
//	field       ::= letter { letter | digit | '_' }   (ASCII letters)
//	whitespace  ::= ' ' | '\t' | '\r' | '\n'   between tokens
package qref

import (
	"fmt"
	"strings"

	pb "github.com/akrennmair/updog/proto/updog/v1"
)

type TokKind int

const (
	TEOF TokKind = iota
	TLParen
	TRParen
	TAnd
	TOr
	TNot
	TEq
	TComma
	TSemi
	TField
	TValue
	TPlaceholder
)

type Token struct {
	Kind TokKind
	Text string // raw text
	Pos  int
}

// RejectReason classifies why the reference rejects (evidence only).
type Reject struct {
	Reason string
	Pos    int
	// TokensBefore is the number of complete tokens before the offending position.
	TokensBefore int
}

func (r *Reject) Error() string { return fmt.Sprintf("%s at byte %d", r.Reason, r.Pos) }

func isLetter(c byte) bool { return (c >= 'a' && c <= 'z') || (c >= 'A' && c <= 'Z') }
func isDigit(c byte) bool  { return c >= '0' && c <= '9' }

// Tokenize splits the whole input; it fails on the first byte that cannot
// start a token, on an unterminated string and on '$' without digits.
func Tokenize(s string) ([]Token, *Reject) {
	var toks []Token
	i := 0
	for i < len(s) {
		c := s[i]
		switch {
		case c == ' ' || c == '\t' || c == '\r' || c == '\n':
			i++
		case c == '(':
			toks = append(toks, Token{TLParen, "(", i})
			i++
		case c == ')':
			toks = append(toks, Token{TRParen, ")", i})
			i++
		case c == '&':
			toks = append(toks, Token{TAnd, "&", i})
			i++
		case c == '|':
			toks = append(toks, Token{TOr, "|", i})
			i++
		case c == '^':
			toks = append(toks, Token{TNot, "^", i})
			i++
		case c == '=':
			toks = append(toks, Token{TEq, "=", i})
			i++
		case c == ',':
			toks = append(toks, Token{TComma, ",", i})
			i++
		case c == ';':
			toks = append(toks, Token{TSemi, ";", i})
			i++
		case isLetter(c):
			j := i + 1
			for j < len(s) && (isLetter(s[j]) || isDigit(s[j]) || s[j] == '_') {
				j++
			}
			toks = append(toks, Token{TField, s[i:j], i})
			i = j
		case c == '"':
			j := i + 1
			closed := false
			for j < len(s) {
				if s[j] == '"' {
					if j+1 < len(s) && s[j+1] == '"' {
						j += 2
						continue
					}
					closed = true
					j++
					break
				}
				j++
			}
			if !closed {
				return toks, &Reject{"unterminated string", i, len(toks)}
			}
			toks = append(toks, Token{TValue, s[i:j], i})
			i = j
		case c == '$':
			j := i + 1
			for j < len(s) && isDigit(s[j]) {
				j++
			}
			if j == i+1 {
				return toks, &Reject{"placeholder without number", i, len(toks)}
			}
			toks = append(toks, Token{TPlaceholder, s[i:j], i})
			i = j
		default:
			return toks, &Reject{"byte that starts no token", i, len(toks)}
		}
	}
	toks = append(toks, Token{TEOF, "", len(s)})
	return toks, nil
}

type parser struct {
	toks []Token
	p    int
}

func (p *parser) peek() Token { return p.toks[p.p] }
func (p *parser) next() Token { t := p.toks[p.p]; p.p++; return t }
func (p *parser) fail(reason string) *Reject {
	return &Reject{reason, p.peek().Pos, p.p}
}

// Parse returns the tree the grammar prescribes, or the reason for rejection.
func Parse(s string) (*pb.Query, *Reject) {
	toks, rej := Tokenize(s)
	if rej != nil {
		return nil, rej
	}
	p := &parser{toks: toks}
	e, rej := p.expr()
	if rej != nil {
		return nil, rej
	}
	q := &pb.Query{Expr: e}
	if p.peek().Kind == TSemi {
		p.next()
		for {
			if p.peek().Kind != TField {
				return nil, p.fail("expected field in field list")
			}
			q.GroupBy = append(q.GroupBy, p.next().Text)
			if p.peek().Kind != TComma {
				break
			}
			p.next()
		}
	}
	if p.peek().Kind != TEOF {
		return nil, p.fail("trailing input after a complete query")
	}
	return q, nil
}

func (p *parser) expr() (*pb.Query_Expression, *Reject) {
	first, rej := p.simple()
	if rej != nil {
		return nil, rej
	}
	k := p.peek().Kind
	if k != TAnd && k != TOr {
		return first, nil
	}
	ops := []*pb.Query_Expression{first}
	for p.peek().Kind == k {
		p.next()
		e, rej := p.simple()
		if rej != nil {
			return nil, rej
		}
		ops = append(ops, e)
	}
	if k == TAnd {
		return &pb.Query_Expression{Value: &pb.Query_Expression_And_{And: &pb.Query_Expression_And{Exprs: ops}}}, nil
	}
	return &pb.Query_Expression{Value: &pb.Query_Expression_Or_{Or: &pb.Query_Expression_Or{Exprs: ops}}}, nil
}

func (p *parser) simple() (*pb.Query_Expression, *Reject) {
	// iterative over '^' and '(' prefixes would complicate tree building; the
	// recursion depth equals the nesting depth of the input
	switch p.peek().Kind {
	case TLParen:
		p.next()
		e, rej := p.expr()
		if rej != nil {
			return nil, rej
		}
		if p.peek().Kind != TRParen {
			return nil, p.fail("expected )")
		}
		p.next()
		return e, nil
	case TNot:
		p.next()
		e, rej := p.simple()
		if rej != nil {
			return nil, rej
		}
		return &pb.Query_Expression{Value: &pb.Query_Expression_Not_{Not: &pb.Query_Expression_Not{Expr: e}}}, nil
	case TField:
		col := p.next().Text
		if p.peek().Kind != TEq {
			return nil, p.fail("expected =")
		}
		p.next()
		eq := &pb.Query_Expression_Equal{Column: col}
		switch p.peek().Kind {
		case TValue:
			raw := p.next().Text
			eq.Value = strings.ReplaceAll(raw[1:len(raw)-1], `""`, `"`)
		case TPlaceholder:
			digits := p.peek().Text[1:]
			n, ok := smallNumber(digits)
			if !ok || n < 1 {
				return nil, p.fail("placeholder number not in 1..2^31-1")
			}
			p.next()
			eq.Placeholder = int32(n)
		default:
			return nil, p.fail("expected value or placeholder")
		}
		return &pb.Query_Expression{Value: &pb.Query_Expression_Eq{Eq: eq}}, nil
	}
	return nil, p.fail("expected (, ^ or field")
}

// smallNumber parses decimal digits; ok is false when the value exceeds 2^31-1.
func smallNumber(d string) (int64, bool) {
	var n int64
	for i := 0; i < len(d); i++ {
		n = n*10 + int64(d[i]-'0')
		if n > 1<<31-1 {
			return 0, false
		}
	}
	return n, true
}

// ---------------------------------------------------------------- tree helpers

// TreeString renders a proto expression tree unambiguously (for messages).
func TreeString(e *pb.Query_Expression) string {
	if e == nil {
		return "<nil>"
	}
	switch v := e.Value.(type) {
	case *pb.Query_Expression_Eq:
		if v.Eq.GetPlaceholder() != 0 {
			return fmt.Sprintf("Eq(%s,$%d,val=%+q)", v.Eq.GetColumn(), v.Eq.GetPlaceholder(), v.Eq.GetValue())
		}
		return fmt.Sprintf("Eq(%s,%+q)", v.Eq.GetColumn(), v.Eq.GetValue())
	case *pb.Query_Expression_Not_:
		return "Not(" + TreeString(v.Not.GetExpr()) + ")"
	case *pb.Query_Expression_And_:
		return "And" + list(v.And.GetExprs())
	case *pb.Query_Expression_Or_:
		return "Or" + list(v.Or.GetExprs())
	}
	return "<unset>"
}

func list(es []*pb.Query_Expression) string {
	parts := make([]string, len(es))
	for i, e := range es {
		parts[i] = TreeString(e)
	}
	return "(" + strings.Join(parts, ", ") + ")"
}

func QueryString(q *pb.Query) string {
	if q == nil {
		return "<nil query>"
	}
	return TreeString(q.GetExpr()) + fmt.Sprintf(" GROUPBY%+q", q.GetGroupBy())
}

// Norm flattens directly nested nodes of the same operator and unwraps
// single-operand AND/OR (the "same meaning" relation of C10).
func Norm(e *pb.Query_Expression) *pb.Query_Expression {
	switch v := e.Value.(type) {
	case *pb.Query_Expression_Not_:
		return &pb.Query_Expression{Value: &pb.Query_Expression_Not_{Not: &pb.Query_Expression_Not{Expr: Norm(v.Not.GetExpr())}}}
	case *pb.Query_Expression_And_:
		var ops []*pb.Query_Expression
		for _, s := range v.And.GetExprs() {
			n := Norm(s)
			if a, ok := n.Value.(*pb.Query_Expression_And_); ok {
				ops = append(ops, a.And.GetExprs()...)
			} else {
				ops = append(ops, n)
			}
		}
		if len(ops) == 1 {
			return ops[0]
		}
		return &pb.Query_Expression{Value: &pb.Query_Expression_And_{And: &pb.Query_Expression_And{Exprs: ops}}}
	case *pb.Query_Expression_Or_:
		var ops []*pb.Query_Expression
		for _, s := range v.Or.GetExprs() {
			n := Norm(s)
			if a, ok := n.Value.(*pb.Query_Expression_Or_); ok {
				ops = append(ops, a.Or.GetExprs()...)
			} else {
				ops = append(ops, n)
			}
		}
		if len(ops) == 1 {
			return ops[0]
		}
		return &pb.Query_Expression{Value: &pb.Query_Expression_Or_{Or: &pb.Query_Expression_Or{Exprs: ops}}}
	}
	return e
}
