package qref

import (
	"fmt"

	pb "github.com/akrennmair/updog/proto/updog/v1"
	"github.com/akrennmair/updog/verifharness/model"
)

// T is a gob-friendly mirror of the protobuf expression tree, with placeholders.
type T struct {
	Op   int // model.OpEq / OpNot / OpAnd / OpOr
	Col  string
	Val  string
	PH   int32
	Subs []T
}

func (t T) PB() *pb.Query_Expression {
	switch t.Op {
	case model.OpEq:
		return &pb.Query_Expression{Value: &pb.Query_Expression_Eq{Eq: &pb.Query_Expression_Equal{Column: t.Col, Value: t.Val, Placeholder: t.PH}}}
	case model.OpNot:
		return &pb.Query_Expression{Value: &pb.Query_Expression_Not_{Not: &pb.Query_Expression_Not{Expr: t.Subs[0].PB()}}}
	}
	var ops []*pb.Query_Expression
	for _, s := range t.Subs {
		ops = append(ops, s.PB())
	}
	if t.Op == model.OpAnd {
		return &pb.Query_Expression{Value: &pb.Query_Expression_And_{And: &pb.Query_Expression_And{Exprs: ops}}}
	}
	return &pb.Query_Expression{Value: &pb.Query_Expression_Or_{Or: &pb.Query_Expression_Or{Exprs: ops}}}
}

// MaxPH is the highest placeholder number in the tree (0 = none).
func (t T) MaxPH() int32 {
	m := t.PH
	for _, s := range t.Subs {
		if x := s.MaxPH(); x > m {
			m = x
		}
	}
	return m
}

// Bind is the reference substitution: every $n becomes the literal args[n-1];
// nothing else changes.  ok is false when an argument is missing.
func (t T) Bind(args []string) (T, bool) {
	out := T{Op: t.Op, Col: t.Col, Val: t.Val, PH: t.PH}
	if t.Op == model.OpEq && t.PH > 0 {
		if int(t.PH) > len(args) {
			return out, false
		}
		out.Val, out.PH = args[t.PH-1], 0
	}
	for _, s := range t.Subs {
		b, ok := s.Bind(args)
		if !ok {
			return out, false
		}
		out.Subs = append(out.Subs, b)
	}
	return out, true
}

// Model converts a placeholder-free tree to a model expression.
func (t T) Model() model.Expr {
	e := model.Expr{Op: t.Op, Col: t.Col, Val: t.Val}
	for _, s := range t.Subs {
		e.Subs = append(e.Subs, s.Model())
	}
	return e
}

// FromModel lifts a model expression into a T (no placeholders).
func FromModel(e model.Expr) T {
	t := T{Op: e.Op, Col: e.Col, Val: e.Val}
	for _, s := range e.Subs {
		t.Subs = append(t.Subs, FromModel(s))
	}
	return t
}

func (t T) String() string { return TreeString(t.PB()) }

var _ = fmt.Sprintf
