// C12 — sql driver returns exactly the library's result as rows.
package c12

import (
	"database/sql"
	"fmt"
	"os"
	"strings"
	"testing"

	_ "github.com/akrennmair/updog/driver"
	"github.com/akrennmair/updog/internal/queryparser"
	pb "github.com/akrennmair/updog/proto/updog/v1"
	"github.com/akrennmair/updog/verifharness/evid"
	"github.com/akrennmair/updog/verifharness/fix"
	"github.com/akrennmair/updog/verifharness/gen"
	"github.com/akrennmair/updog/verifharness/model"
	"github.com/akrennmair/updog/verifharness/qref"
	"pgregory.net/rapid"
)

const prop = "C12"

func TestMain(m *testing.M) { fix.Main(m) }

type Q struct {
	Tree    qref.T
	GroupBy []string
	Args    []string
	Prepare bool
	// Wrap > 0: white space that is NOT the grammar's (vertical tab, form
	// feed, NEL, NBSP, line separator, ideographic space, BOM) is put in front
	// of (odd) or behind (even) the text; the library's parser decides what
	// the text then is, and the driver has to agree with it.
	Wrap int
}

type Case struct {
	Data    gen.DataSpec
	Writer  int
	DSNOpts string // "", "preload=true", "lrucache=true&lrucachesize=N", both
	Queries []Q
}

func (c *Case) Summary() string {
	var b strings.Builder
	fmt.Fprintf(&b, "%s writer=%s dsn-options=%q queries[%d]:", c.Data.Summary(), fix.WriterName[c.Writer], c.DSNOpts, len(c.Queries))
	for i, q := range c.Queries {
		if i >= 8 {
			b.WriteString(" …")
			break
		}
		fmt.Fprintf(&b, " %s GROUP BY %q args %+q prepare=%v;", q.Tree.String(), q.GroupBy, q.Args, q.Prepare)
	}
	return b.String()
}

var exoticSpace = []string{"\v", "\f", "\u0085", "\u00a0", "\u2028", "\u3000", "\ufeff", "\v \f", " \u00a0", "\u2003"}

type facts struct{ multiRow, zeroRow, errPath bool }

func oracle(c *Case) (facts, error) {
	var f facts
	rows := c.Data.Rows()
	d := model.NewData(rows)
	dir := fix.CaseDir()
	defer os.RemoveAll(dir)
	path, _, err := fix.Build(dir, rows, c.Writer)
	if err != nil {
		return f, fmt.Errorf("INFRA: %v", err)
	}
	dsn := "file:" + path
	if c.DSNOpts != "" {
		dsn += "?" + c.DSNOpts
	}
	db, err := sql.Open("updog", dsn)
	if err != nil {
		return f, fmt.Errorf("sql.Open(%q): %v", dsn, err)
	}
	defer db.Close()
	db.SetMaxOpenConns(1)
	for k, q := range c.Queries {
		text := queryparser.QueryToString(&pb.Query{Expr: q.Tree.PB(), GroupBy: q.GroupBy})
		args := make([]any, len(q.Args))
		for i, a := range q.Args {
			args[i] = a
		}
		if q.Wrap > 0 {
			ws := exoticSpace[q.Wrap%len(exoticSpace)]
			if q.Wrap%2 == 1 {
				text = ws + text
			} else {
				text = text + ws
			}
		}
		_, libRejects := qref.Parse(text)
		var got *fix.SQLRows
		qerr := fix.Safe(func() error {
			var r *sql.Rows
			var e error
			if q.Prepare {
				st, pe := db.Prepare(text)
				if pe != nil {
					return pe
				}
				defer st.Close()
				if len(args) > 0 {
					// a prepared statement is reusable: run it once with decoy
					// arguments first; the result that counts is the second one
					decoy := make([]any, len(args))
					for i := range args {
						decoy[i] = fmt.Sprint(args[i]) + "\x01decoy"
					}
					if dr, de := st.Query(decoy...); de == nil {
						for dr.Next() {
						}
						dr.Close()
					}
				}
				r, e = st.Query(args...)
			} else {
				r, e = db.Query(text, args...)
			}
			if e != nil {
				return e
			}
			got, e = fix.ScanAll(r)
			return e
		})
		if fix.IsPanic(qerr) {
			return f, fmt.Errorf("query %d %+q: %v", k, text, qerr)
		}
		if libRejects != nil {
			f.errPath = true
			if qerr == nil {
				return f, fmt.Errorf("query %d %+q is not a sentence of the query grammar (%v: the library's parser rejects it) but the driver returned rows %v", k, text, libRejects, got.Rows)
			}
			continue
		}
		bound, ok := q.Tree.Bind(q.Args)
		if !ok {
			return f, fmt.Errorf("INFRA: generator produced too few arguments")
		}
		be := bound.Model()
		if d.Rejects(be, q.GroupBy) {
			f.errPath = true
			if qerr == nil {
				return f, fmt.Errorf("query %d %+q is rejected by the library (unknown column) but the driver returned rows %v", k, text, got.Rows)
			}
			continue
		}
		if qerr != nil {
			return f, fmt.Errorf("query %d %+q args %+q: unexpected error %v", k, text, q.Args, qerr)
		}
		want := d.Query(be, q.GroupBy)
		if err := fix.CheckRows(got, q.GroupBy, want); err != nil {
			return f, fmt.Errorf("query %d %+q args %+q (dsn options %q): %v", k, text, q.Args, c.DSNOpts, err)
		}
		if len(q.GroupBy) > 0 {
			if len(want.Groups) >= 2 {
				f.multiRow = true
			}
			if len(want.Groups) == 0 {
				f.zeroRow = true
			}
		}
	}
	return f, nil
}

func run(t interface{ Fatalf(string, ...any) }, c *Case) {
	defer fix.Track(prop, "rows", c, c.Summary())()
	f, err := oracle(c)
	if err != nil && strings.HasPrefix(err.Error(), "INFRA:") {
		panic(err.Error())
	}
	cl := []string{"dsn:" + optClass(c.DSNOpts)}
	maxgb := 0
	for _, q := range c.Queries {
		if len(q.GroupBy) > maxgb {
			maxgb = len(q.GroupBy)
		}
	}
	cl = append(cl, fmt.Sprintf("max-groupby:%d", maxgb))
	if f.zeroRow {
		cl = append(cl, "grouped-zero-match")
	}
	if f.errPath {
		cl = append(cl, "rejected-query")
	}
	evid.Case(f.multiRow || f.zeroRow, c.Summary(), cl...)
	if err != nil {
		fix.Fail(t, prop, "rows", c, c.Summary(), err)
	}
}

func optClass(o string) string {
	switch {
	case o == "":
		return "none"
	case strings.Contains(o, "preload") && strings.Contains(o, "lrucache"):
		return "preload+lru"
	case strings.Contains(o, "preload"):
		return "preload"
	}
	return "lru"
}

func placeholderise(t *rapid.T, e model.Expr, args *[]string) qref.T {
	out := qref.T{Op: e.Op, Col: e.Col, Val: e.Val}
	if e.Op == model.OpEq {
		if rapid.IntRange(0, 3).Draw(t, "ph?") == 0 {
			*args = append(*args, e.Val)
			out.PH, out.Val = int32(len(*args)), ""
		}
		return out
	}
	for _, s := range e.Subs {
		out.Subs = append(out.Subs, placeholderise(t, s, args))
	}
	return out
}

func drawCase(t *rapid.T, maxRecipe int) *Case {
	c := &Case{Writer: rapid.IntRange(0, fix.NWriters-1).Draw(t, "writer")}
	c.Data = *gen.Dataset(t, gen.DataOpts{MaxRows: 30, IdentCols: true, MaxRecipeN: maxRecipe, RecipeProb: 20})
	var opts []string
	if rapid.Bool().Draw(t, "preload") {
		opts = append(opts, "preload=true")
	}
	if rapid.Bool().Draw(t, "lru") {
		opts = append(opts, "lrucache=true", fmt.Sprintf("lrucachesize=%d", rapid.SampledFrom([]int{0, 1024, 10 << 20}).Draw(t, "lrusize")))
	}
	c.DSNOpts = strings.Join(opts, "&")
	// whitespace twins: values that differ only in the whitespace inside them,
	// queried one after the other on the same handle (a statement or parse
	// cache that normalises query text confuses them)
	twins := []string{"new york", "new  york", "new\tyork", " new york", "new york "}
	twinCol := ""
	if c.Data.Recipe == nil && rapid.IntRange(0, 2).Draw(t, "twins") == 0 {
		twinCol = rapid.SampledFrom([]string{"a", "b", "city"}).Draw(t, "twincol")
		for i, v := range twins {
			for k := 0; k <= i; k++ {
				c.Data.Explicit = append(c.Data.Explicit, model.Row{twinCol: v, "a": "1"})
			}
		}
		c.Data = gen.DataSpec{Explicit: c.Data.Explicit}
	}
	d := model.NewData(c.Data.Rows())
	pool := gen.NewLeafPool(d)
	if twinCol != "" {
		order := rapid.Permutation(twins).Draw(t, "twinorder")
		for _, v := range order {
			q := Q{Prepare: rapid.Bool().Draw(t, "twinprep"), Tree: qref.T{Op: model.OpAnd, Subs: []qref.T{{Op: model.OpEq, Col: twinCol, Val: v}, {Op: model.OpEq, Col: "a", PH: 1}}}, Args: []string{"1"}}
			if rapid.Bool().Draw(t, "twingb") {
				q.GroupBy = []string{twinCol}
			}
			c.Queries = append(c.Queries, q)
		}
	}
	n := rapid.IntRange(1, 10).Draw(t, "nq")
	for i := 0; i < n; i++ {
		var e model.Expr
		switch rapid.IntRange(0, 9).Draw(t, "shape") {
		case 0: // matches everything
			if len(pool.Cols) > 0 {
				e = model.Not(model.Eq(pool.Cols[0], "\x01none"))
				break
			}
			fallthrough
		case 1: // matches nothing
			if len(pool.Cols) > 0 {
				e = model.Eq(pool.Cols[0], "\x01none")
				break
			}
			fallthrough
		default:
			e = pool.Expr(t, gen.UnknownSometimes(t))
		}
		q := Q{Prepare: rapid.Bool().Draw(t, "prepare")}
		q.Tree = placeholderise(t, e, &q.Args)
		unk := 0
		if rapid.IntRange(0, 14).Draw(t, "gbunk") == 0 {
			unk = 30
		}
		q.GroupBy = pool.GroupBy(t, 4, unk)
		if c.Data.Recipe != nil && len(q.GroupBy) > 1 {
			q.GroupBy = q.GroupBy[:1]
		}
		c.Queries = append(c.Queries, q)
		if rapid.IntRange(0, 5).Draw(t, "wrap?") == 0 {
			w := q
			w.Wrap = rapid.IntRange(1, 40).Draw(t, "wrap")
			c.Queries = append(c.Queries, w)
		}
	}
	return c
}

func replay(cf *evid.CaseFile) error {
	var c Case
	if err := evid.Decode(cf.Gob, &c); err != nil {
		return err
	}
	_, err := oracle(&c)
	return err
}

// bigRows: results of tens of thousands of rows (more than 65,536 groups,
// a count that is a multiple of neither 4096 nor a small worker count), and
// thousands of distinct statements on ONE handle followed by the first ones
// again (whatever a connection remembers per statement text is turned over).
func bigRows(t *testing.T, n int, opts string) {
	spec := gen.DataSpec{Recipe: &gen.Recipe{N: n, Cols: []gen.ColSpec{
		{Name: "u", Prefix: "r", Kind: gen.KUnique}, {Name: "g", Kind: gen.KMod, K: 3, Prefix: "p"}}}}
	taut := qref.T{Op: model.OpNot, Subs: []qref.T{{Op: model.OpEq, Col: "g", Val: "none"}}}
	run(t, &Case{Data: spec, DSNOpts: opts, Queries: []Q{
		{Tree: taut, GroupBy: []string{"u"}}, {Tree: taut, GroupBy: []string{"g", "u"}, Prepare: true},
		{Tree: qref.T{Op: model.OpEq, Col: "g", PH: 1}, GroupBy: []string{"u"}, Args: []string{"p1"}, Prepare: true}}})
}

func manyStatements(t *testing.T, n int, opts string) {
	spec := gen.DataSpec{Recipe: &gen.Recipe{N: 600, Cols: []gen.ColSpec{
		{Name: "u", Prefix: "r", Kind: gen.KUnique}, {Name: "g", Kind: gen.KMod, K: 3, Prefix: "p"}}}}
	c := &Case{Data: spec, DSNOpts: opts}
	for round := 0; round < 2; round++ {
		lim := n
		if round == 1 {
			lim = 60 // the oldest texts again
		}
		for i := 0; i < lim; i++ {
			// distinct texts: the literal differs; every 7th uses a placeholder
			q := Q{Tree: qref.T{Op: model.OpAnd, Subs: []qref.T{{Op: model.OpEq, Col: "u", Val: fmt.Sprintf("r%d", i%700)}, {Op: model.OpNot, Subs: []qref.T{{Op: model.OpEq, Col: "g", Val: fmt.Sprintf("x%d", i)}}}}}, Prepare: i%3 == 0}
			if i%7 == 0 {
				q.Tree.Subs[0] = qref.T{Op: model.OpEq, Col: "u", PH: 1}
				q.Args = []string{fmt.Sprintf("r%d", i%700)}
			}
			c.Queries = append(c.Queries, q)
		}
	}
	run(t, c)
}

func TestQuick(t *testing.T) {
	fix.Pinned(t, prop, replay)
	bigRows(t, 70001, "")
	manyStatements(t, 4300, "lrucache=true&lrucachesize=1048576")
	fix.Check(t, "rows", 500, func(rt *rapid.T) { run(rt, drawCase(rt, 2000)) })
}

func TestThorough(t *testing.T) {
	if shard, _ := evid.Shard(); shard == 0 {
		fix.Pinned(t, prop, replay)
		bigRows(t, 70001, "")
		bigRows(t, 21000, "preload=true")
		manyStatements(t, 4300, "lrucache=true&lrucachesize=1048576")
		manyStatements(t, 9000, "")
	}
	fix.Check(t, "rows", 15000, func(rt *rapid.T) { run(rt, drawCase(rt, 2000)) })
}

func TestReplay(t *testing.T) {
	cf := fix.ReplayFile(t)
	if err := replay(cf); err != nil {
		t.Fatalf("replay of %s/%s fails: %v", cf.Property, cf.Sub, err)
	}
}
