// C09 — query parser is total and accepts exactly the documented grammar.
package c09

import (
	"fmt"
	"math/big"
	"os"
	"runtime"
	"strconv"
	"strings"
	"sync"
	"testing"
	"time"

	"github.com/akrennmair/updog/internal/queryparser"
	pb "github.com/akrennmair/updog/proto/updog/v1"
	"github.com/akrennmair/updog/verifharness/evid"
	"github.com/akrennmair/updog/verifharness/fix"
	"github.com/akrennmair/updog/verifharness/qref"
	"google.golang.org/protobuf/proto"
	"pgregory.net/rapid"
)

const prop = "C09"

func TestMain(m *testing.M) { fix.Main(m) }

type Case struct {
	Input  string
	Source string
	// More: further inputs parsed after Input while the caller still holds the
	// tree returned for Input (source "retain"): that tree must still be the
	// one the grammar prescribes for Input afterwards.
	More []string
}

func (c *Case) Summary() string {
	s := c.Input
	if len(s) > 400 {
		s = s[:200] + "…" + s[len(s)-150:]
	}
	return fmt.Sprintf("[%s] %+q (len %d)", c.Source, s, len(c.Input))
}

// lexerGoroutines counts goroutines inside the lexer's run loop and returns
// the dump of one that is parked in a channel send (its only receiver is the
// parser that has already returned).
func lexerGoroutines() (n int, parkedSend string) {
	buf := make([]byte, 1<<20)
	buf = buf[:runtime.Stack(buf, true)]
	for _, g := range strings.Split(string(buf), "\n\n") {
		if !strings.Contains(g, "queryparser.(*lexer).run") {
			continue
		}
		n++
		// parked in a channel send, or in a select whose only other case is a
		// "done" signal that nobody will ever give: both cannot make progress
		// once ParseQuery has returned
		if hdr := strings.SplitN(g, "\n", 2)[0]; strings.Contains(hdr, "chan send") || strings.Contains(hdr, "[select") {
			parkedSend = g
		}
	}
	return
}

type outcome struct {
	q   *pb.Query
	err error
	pan any
}

// check is the oracle for one input string.
func check(input string) (class string, err error) {
	want, rej := qref.Parse(input)
	base := runtime.NumGoroutine()
	done := make(chan outcome, 1)
	go func() {
		var o outcome
		defer func() {
			if r := recover(); r != nil {
				o.pan = r
			}
			done <- o
		}()
		o.q, o.err = queryparser.ParseQuery(input)
	}()
	var o outcome
	select {
	case o = <-done:
	case <-time.After(20 * time.Second):
		buf := make([]byte, 1<<20)
		buf = buf[:runtime.Stack(buf, true)]
		dump := string(buf)
		// the parser waits for a token that nobody will ever send
		if strings.Contains(dump, "queryparser.(*lexer).nextItem") && !strings.Contains(dump, "queryparser.(*lexer).run") {
			return "hang", fmt.Errorf("ParseQuery does not terminate: parser blocked in nextItem with no lexer goroutine alive")
		}
		// every goroutine inside the parser package parked on one of its own
		// channels, unchanged over 5 s: nobody is left to wake the call
		if g, ok := fix.Standstill("queryparser.ParseQuery"); ok {
			return "hang", fmt.Errorf("ParseQuery does not terminate: %s", clip(g, 1500))
		}
		panic("INFRA: ParseQuery slow (>20s) but not provably stuck")
	}
	if o.pan != nil {
		return "panic", fmt.Errorf("ParseQuery panicked: %v", o.pan)
	}
	// goroutines: give a still-running lexer the chance to finish, then look
	for i := 0; i < 200 && runtime.NumGoroutine() > base; i++ {
		runtime.Gosched()
	}
	if runtime.NumGoroutine() > base {
		for i := 0; i < 50; i++ {
			n, parked := lexerGoroutines()
			if n == 0 {
				break
			}
			if parked != "" {
				return "leak", fmt.Errorf("ParseQuery returned (err=%v) but left a lexer goroutine behind, blocked forever handing over a token:\n%s", o.err, clip(parked, 900))
			}
			time.Sleep(time.Millisecond)
		}
	}
	if rej != nil {
		class = "reject:" + rej.Reason
		if o.err == nil {
			return class, fmt.Errorf("input is not a sentence of the grammar (%v) but ParseQuery accepted it as %s", rej, qref.QueryString(o.q))
		}
		if o.q != nil {
			return class, fmt.Errorf("ParseQuery returned an error AND a query")
		}
		return class, nil
	}
	class = "accept"
	if o.err != nil {
		return class, fmt.Errorf("input is a sentence of the grammar (%s) but ParseQuery rejected it: %v", qref.QueryString(want), o.err)
	}
	if o.q == nil {
		return class, fmt.Errorf("ParseQuery returned neither query nor error")
	}
	if !proto.Equal(o.q, want) {
		return class, fmt.Errorf("tree differs from the one the grammar prescribes:\n got  %s\n want %s", qref.QueryString(o.q), qref.QueryString(want))
	}
	return class, nil
}

func clip(s string, n int) string {
	if len(s) > n {
		return s[:n] + "…"
	}
	return s
}

// retained: the tree ParseQuery returned for the first input is looked at
// again after the other inputs have been parsed.
func retained(c *Case) error {
	want, rej := qref.Parse(c.Input)
	if rej != nil {
		return nil
	}
	var first *pb.Query
	if err := fix.Safe(func() error { var e error; first, e = queryparser.ParseQuery(c.Input); return e }); err != nil {
		return fmt.Errorf("sentence rejected: %v", err)
	}
	for _, m := range c.More {
		fix.Safe(func() error { _, e := queryparser.ParseQuery(m); return e })
	}
	if !proto.Equal(first, want) {
		return fmt.Errorf("the tree returned for the first input was changed by parsing %d further inputs:\n now  %s\n want %s", len(c.More), qref.QueryString(first), qref.QueryString(want))
	}
	return nil
}

func run(t interface{ Fatalf(string, ...any) }, c *Case) {
	if c.Source == "retain" {
		err := retained(c)
		evid.Case(len(c.More) > 0 && strings.Contains(c.Input, `""`), c.Summary()+fmt.Sprintf(" then %d more inputs", len(c.More)), "source:retain")
		if err != nil {
			fix.Fail(t, prop, "parse", c, c.Summary(), err)
		}
		return
	}
	class, err := check(c.Input)
	toks, _ := qref.Tokenize(c.Input)
	nt := false
	if len(toks) >= 4 { // >= 3 tokens + EOF, or 3 before a lexical error
		if class == "accept" {
			nt = true
		} else if _, rej := qref.Parse(c.Input); rej != nil && rej.TokensBefore >= 3 {
			nt = true // rejected after the first complete comparison
		}
	}
	evid.Case(nt, c.Summary(), "source:"+c.Source, class)
	if err != nil {
		fix.Fail(t, prop, "parse", c, c.Summary(), err)
	}
}

// ---------------------------------------------------------------- generators

var fields = []string{"a", "b", "c", "col_1", "X9", "zZ_", "count", "a0", "and", "or", "not", "AND", "Or", "NOT", "null", "x_", "select", "where", "group", "by", "in", "true"}
var values = []string{"\ufffd", "M\ufffdnchen", "x\xc0\xa2y", "\xc0\xa0", "\xc1\x81", "a  b", "a\tb", "", "x", "1", "a b", "é", "日本", "\xff", "a\"b", "\"", "\"\"", "\n", "a\nb", "$1", ";", "(", ")", "&|^", "=", ",", "\x00", "\t", "💩", "''", "\\"}
var placeholders = []string{"1", "2", "3", "10", "007", "2147483647", "0001", "00000000001", "0002147483647", "000000000000000000000000000000000000007", "65", "256", "1025", "010", "08", "09", "0100", "0777", "012345"}

func quote(v string) string { return `"` + strings.ReplaceAll(v, `"`, `""`) + `"` }

// genExprTokens draws a valid expression as a token list and the tree it must
// parse to.  top: chains at the top level need no parentheses.
func genExprTokens(t *rapid.T, depth int, top bool) ([]string, *pb.Query_Expression) {
	k := rapid.IntRange(0, 9).Draw(t, "node")
	if depth <= 0 || k < 3 {
		col := rapid.SampledFrom(fields).Draw(t, "field")
		eq := &pb.Query_Expression_Equal{Column: col}
		var rhs string
		if rapid.IntRange(0, 3).Draw(t, "ph") == 0 {
			d := rapid.SampledFrom(placeholders).Draw(t, "phn")
			n, _ := strconv.Atoi(d)
			eq.Placeholder = int32(n)
			rhs = "$" + d
		} else {
			v := rapid.SampledFrom(values).Draw(t, "value")
			if rapid.IntRange(0, 4).Draw(t, "rawv") == 0 {
				v = string(rapid.SliceOfN(rapid.Byte(), 0, 10).Draw(t, "bytes"))
			}
			eq.Value = v
			rhs = quote(v)
		}
		toks := []string{col, "=", rhs}
		e := &pb.Query_Expression{Value: &pb.Query_Expression_Eq{Eq: eq}}
		return wrap(t, toks), e
	}
	if k < 5 {
		toks, e := genExprTokens(t, depth-1, false)
		return wrap(t, append([]string{"^"}, toks...)), &pb.Query_Expression{Value: &pb.Query_Expression_Not_{Not: &pb.Query_Expression_Not{Expr: e}}}
	}
	n := rapid.IntRange(2, 5).Draw(t, "arity")
	op := "&"
	if k >= 8 {
		op = "|"
	}
	var toks []string
	var ops []*pb.Query_Expression
	for i := 0; i < n; i++ {
		st, se := genExprTokens(t, depth-1, false)
		if i > 0 {
			toks = append(toks, op)
		}
		toks = append(toks, st...)
		ops = append(ops, se)
	}
	var e *pb.Query_Expression
	if op == "&" {
		e = &pb.Query_Expression{Value: &pb.Query_Expression_And_{And: &pb.Query_Expression_And{Exprs: ops}}}
	} else {
		e = &pb.Query_Expression{Value: &pb.Query_Expression_Or_{Or: &pb.Query_Expression_Or{Exprs: ops}}}
	}
	if !top {
		toks = append(append([]string{"("}, toks...), ")")
	}
	return wrap(t, toks), e
}

// wrap adds redundant parentheses sometimes (they only group).
func wrap(t *rapid.T, toks []string) []string {
	if rapid.IntRange(0, 7).Draw(t, "redundant") == 0 {
		return append(append([]string{"("}, toks...), ")")
	}
	return toks
}

var seps = []string{"", "", " ", " ", "  ", "\t", "\n", "\r\n", " \t "}

func join(t *rapid.T, toks []string) string {
	var b strings.Builder
	b.WriteString(rapid.SampledFrom(seps).Draw(t, "lead"))
	for _, tk := range toks {
		b.WriteString(tk)
		b.WriteString(rapid.SampledFrom(seps).Draw(t, "sep"))
	}
	return b.String()
}

func genSentence(t *rapid.T) ([]string, *pb.Query) {
	toks, e := genExprTokens(t, rapid.IntRange(0, 5).Draw(t, "depth"), true)
	q := &pb.Query{Expr: e}
	if rapid.IntRange(0, 2).Draw(t, "gb") == 0 {
		toks = append(toks, ";")
		n := rapid.IntRange(1, 4).Draw(t, "ngb")
		for i := 0; i < n; i++ {
			if i > 0 {
				toks = append(toks, ",")
			}
			f := rapid.SampledFrom(fields).Draw(t, "gbf")
			toks = append(toks, f)
			q.GroupBy = append(q.GroupBy, f)
		}
	}
	return toks, q
}

var junk = []string{"&", "|", "^", "(", ")", ";", ",", "=", "$", "$0", "$00", "$2147483648", "$4294967297", "$99999999999999999999", "$00002147483648", "$000000000000", "$-1", "$1",
	"$18446744073709551616", "$18446744073709551617", "$18446744075857035263", "$36893488147419103233", "$340282366920938463463374607431768211457", "$9223372036854775808", "$9223372036854775809",
	"\"x", "\"", "\"\"\"", "x", "9", "_a", "é", "\xff", "\x00", "\v", "\f", "a=\"1\"", "junk", "a = \"1\" ; ", "#", "--", "'x'", "a==\"1\"", "\"a\"=\"b\""}

func mutate(t *rapid.T, toks []string) []string {
	out := append([]string(nil), toks...)
	n := rapid.IntRange(1, 3).Draw(t, "nmut")
	for m := 0; m < n; m++ {
		if len(out) == 0 {
			out = append(out, rapid.SampledFrom(junk).Draw(t, "junk0"))
			continue
		}
		i := rapid.IntRange(0, len(out)-1).Draw(t, "mi")
		switch rapid.IntRange(0, 7).Draw(t, "mkind") {
		case 0: // drop
			out = append(out[:i:i], out[i+1:]...)
		case 1: // duplicate
			out = append(out[:i+1:i+1], out[i:]...)
		case 2: // swap with neighbour
			if i+1 < len(out) {
				out[i], out[i+1] = out[i+1], out[i]
			}
		case 3: // append junk / a second expression
			out = append(out, rapid.SampledFrom(junk).Draw(t, "tail"))
		case 4: // replace
			out[i] = rapid.SampledFrom(junk).Draw(t, "repl")
		case 5: // mix & and | in one chain
			for j := range out {
				if (out[j] == "&" || out[j] == "|") && rapid.Bool().Draw(t, "flipop") {
					out[j] = map[string]string{"&": "|", "|": "&"}[out[j]]
					break
				}
			}
		case 6: // insert junk
			out = append(out[:i:i], append([]string{rapid.SampledFrom(junk).Draw(t, "ins")}, out[i:]...)...)
		case 7: // cut the tail
			out = out[:i]
		}
	}
	return out
}

func drawValid(t *rapid.T) *Case {
	toks, want := genSentence(t)
	s := join(t, toks)
	// harness self-check: the reference must accept what the generator built
	// and build the intended tree
	got, rej := qref.Parse(s)
	if rej != nil || !proto.Equal(got, want) {
		panic(fmt.Sprintf("INFRA: reference parser disagrees with the sentence generator on %+q: %v / %s vs %s", s, rej, qref.QueryString(got), qref.QueryString(want)))
	}
	return &Case{Input: s, Source: "grammar"}
}

// drawRetain: a sentence with values that need unescaping, then a few more
// sentences of the same kind (whatever the parser reuses between calls must
// not be what the first tree points into).
func drawRetain(t *rapid.T) *Case {
	one := func() string {
		toks, _ := genSentence(t)
		for i := range toks {
			if strings.HasPrefix(toks[i], `"`) && rapid.IntRange(0, 2).Draw(t, "esc") > 0 {
				toks[i] = quote(rapid.SampledFrom([]string{`a"b`, `"`, `""`, `say "hi" twice "ok"`, `x"`, `"y`, strings.Repeat(`q"`, 40)}).Draw(t, "escval"))
			}
		}
		return join(t, toks)
	}
	c := &Case{Input: one(), Source: "retain"}
	for i, n := 0, rapid.IntRange(1, 5).Draw(t, "nmore"); i < n; i++ {
		c.More = append(c.More, one())
	}
	return c
}

func drawMutated(t *rapid.T) *Case {
	toks, _ := genSentence(t)
	return &Case{Input: join(t, mutate(t, toks)), Source: "mutated"}
}

var alphabet = []string{"\xc0\xa2", "\xc0\xa0", "\xc0\xa8", "\xc0\xa9", "\xc0\xa6", "\xc0\xac", "\xc1\x81", "\xc0\xbd", "\ufffd", "a", "b", "=", "\"", "\"x\"", "$", "1", "0", "&", "|", "^", "(", ")", ";", ",", " ", "\n", "_", "é", "\xff", "9"}

func drawBytes(t *rapid.T) *Case {
	if rapid.Bool().Draw(t, "alpha") {
		parts := rapid.SliceOfN(rapid.SampledFrom(alphabet), 0, 30).Draw(t, "parts")
		return &Case{Input: strings.Join(parts, ""), Source: "token-soup"}
	}
	return &Case{Input: string(rapid.SliceOfN(rapid.Byte(), 0, 40).Draw(t, "raw")), Source: "bytes"}
}

// drawWrapPlaceholder: k*2^w + small for w in {32,64,128}: numbers that turn
// into a valid placeholder when an implementation lets the integer wrap.
func drawWrapPlaceholder(t *rapid.T) *Case {
	w := rapid.SampledFrom([]uint{32, 63, 64, 65, 128}).Draw(t, "width")
	k := int64(rapid.IntRange(1, 9).Draw(t, "k"))
	small := int64(rapid.SampledFrom([]int{0, 1, 2, 7, 2147483647}).Draw(t, "small"))
	n := new(big.Int).Lsh(big.NewInt(k), w)
	n.Add(n, big.NewInt(small))
	return &Case{Input: "a = $" + n.String() + rapid.SampledFrom([]string{"", " ; a", " & b = $1"}).Draw(t, "rest"), Source: "wrap-placeholder"}
}

// twins returns variants of a sentence that differ only in whitespace inside
// quoted values, or use a non-separator (\v, U+00A0, U+2003) where the original
// has a blank between tokens.  Each variant is judged on its own by the
// reference; running them right after the original exposes any state that
// leaks from one ParseQuery call to the next (memo keyed by normalised text).
func twins(s string) []string {
	var out []string
	out = append(out, strings.ReplaceAll(s, "  ", " "), strings.ReplaceAll(s, " ", "  "), strings.ReplaceAll(s, "\t", " "), strings.ReplaceAll(s, " ", "\t"))
	out = append(out, strings.Replace(s, " ", "\v", 1), strings.Replace(s, " ", "\u00a0", 1), strings.Replace(s, " ", "\u2003", 1), strings.ToUpper(s), strings.TrimSpace(s)+" ")
	return out
}

var spacedValues = []string{"New York", "New  York", " lead", "trail ", "a\tb", "a \t b", "  ", " ", "x  y  z"}

func drawTwinBase(t *rapid.T) string {
	n := rapid.IntRange(1, 3).Draw(t, "nleaves")
	var parts []string
	for i := 0; i < n; i++ {
		parts = append(parts, rapid.SampledFrom(fields).Draw(t, "tf")+" = "+quote(rapid.SampledFrom(spacedValues).Draw(t, "tv")))
	}
	return strings.Join(parts, rapid.SampledFrom([]string{" & ", " | "}).Draw(t, "top"))
}

// syntax error at one token, lexical error at the very next one
var synlex = []string{"a a !", "a = = \"unterminated", "a = $0 \x00", "(a = \"b\" ; #", "a = \"b\" c \"never closed", "a ^ !", "a = \"1\" ) \"x", "& $", "a = \"1\" ; , \"", "a b \xff"}

func drawAny(t *rapid.T) *Case {
	switch rapid.IntRange(0, 9).Draw(t, "source") {
	case 0, 1, 2, 3:
		return drawValid(t)
	case 4, 5, 6, 7:
		return drawMutated(t)
	default:
		return drawBytes(t)
	}
}

// fixed lists: documented examples of both kinds plus deep nesting
func fixedCases() []*Case {
	var cs []*Case
	for _, s := range []string{
		``, ` `, `a="1"`, `a = "1" & b = "2" | c = "3"`, `a="1" junk`, `a="1" "x`, `a="1" ; b c`, `a="1";b,`, `a = $4294967297`, `a = $2147483648`, `a=$2147483647`,
		`a=$0`, `a=$`, `a=$1 b`, `(a="1"`, `a="1")`, `((a="1"))`, `^^^a="1"`, `^(a="1" & b="2")`, `a="x""y"`, `a="""`, `a=""""`, `a="1" & (b="2" | c="3") & ^d="4"`,
		`a="1" | b="2" | c="3" ; a, b, c`, `a="1"; a;`, `a="1" ;; a`, `é="1"`, `a="é"`, "a=\"\xff\"", "a\x00=\"1\"", `1a="x"`, `_a="x"`, `a_1="x"`, `A="x"&a="y"`,
		`a = "1" &`, `& a = "1"`, `a = "1" & & b = "2"`, `a "1"`, `a = = "1"`, `a = b`, `"a" = "b"`, `a = "1" ; "c"`, `a = "1" , b`, `a="1"\v`, "a=\"1\"\v",
	} {
		cs = append(cs, &Case{Input: s, Source: "fixed"})
	}
	for _, depth := range []int{100, 10000} {
		cs = append(cs, &Case{Input: strings.Repeat("(", depth) + `a="1"` + strings.Repeat(")", depth), Source: "deep"})
		cs = append(cs, &Case{Input: strings.Repeat("^", depth) + `a="1"`, Source: "deep"})
		cs = append(cs, &Case{Input: strings.Repeat("(", depth) + `a="1"` + strings.Repeat(")", depth-1), Source: "deep"})
		cs = append(cs, &Case{Input: strings.Repeat(`a="1" & `, depth) + `b=$1`, Source: "deep"})
		cs = append(cs, &Case{Input: strings.Repeat(`(a="1" | `, depth) + `b=$1` + strings.Repeat(")", depth), Source: "deep"})
	}
	// the input ends inside or right after a run of quotes: `"x""` is an
	// unterminated string (the doubled quote belongs to the value), `"x"""` is
	// the value x" - for every run length and a few prefixes
	for _, pre := range []string{`a = `, `a = "1" & b = `, `^ (a = `} {
		for _, body := range []string{``, `x`, `x""y`, `""`} {
			for n := 1; n <= 6; n++ {
				cs = append(cs, &Case{Input: pre + `"` + body + strings.Repeat(`"`, n), Source: "quote-run-at-end"})
				cs = append(cs, &Case{Input: pre + `"` + body + strings.Repeat(`"`, n) + " ", Source: "quote-run-at-end"})
			}
		}
	}
	// runes above U+00FF whose low byte is a field character, white space or an
	// operator, inside and after field names and between tokens
	for _, low := range []byte("aA0_z9 \t\n\r&|^()=;,$\"") {
		for _, hi := range []rune{0x100, 0x4E00, 0x1F600, 0xFF00} {
			r := string(hi + rune(low))
			for _, tmpl := range []string{"na%s = \"x\"", "a%s = \"x\"", "a = \"x\" %s& b = \"y\"", "a = \"x\" %s", "a = \"x\" ; c%s", "a = \"x\" ; c, %sd", "%sa = \"x\""} {
				cs = append(cs, &Case{Input: fmt.Sprintf(tmpl, r), Source: "lookalike-rune"})
			}
		}
	}
	// a syntax error followed by a long remainder that ends inside or right
	// after a multi-byte character (whoever quotes "the text near the error"
	// has to cut it somewhere)
	for _, base := range []string{`a = = "1" `, `a = "1" ) `, `a b `, `& `, `a = "1" ; , `} {
		for _, pad := range []int{40, 60, 63, 64, 65, 70, 128, 300} {
			for _, tail := range []string{"\x80\x80\x80", "é", "\xe6\x97", "日", "\xf0\x9f\x92", "💩"} {
				cs = append(cs, &Case{Input: base + strings.Repeat("z", pad) + tail, Source: "error-then-long-tail"})
				cs = append(cs, &Case{Input: base + `"` + strings.Repeat("é", pad/2) + tail, Source: "error-then-long-tail"})
			}
		}
	}
	// more than 65,536 of something in one sentence: operators of one flat
	// chain, negations (flat and nested), group-by fields
	for _, n := range []int{65537, 70000} {
		cs = append(cs, &Case{Input: strings.Repeat(`^a="1" & `, n) + `^b="2"`, Source: "huge-flat"})
		cs = append(cs, &Case{Input: strings.Repeat(`(^a="1") | `, n) + `b="2"`, Source: "huge-flat"})
		cs = append(cs, &Case{Input: strings.Repeat("^", n) + `a="1"`, Source: "huge-flat"})
		cs = append(cs, &Case{Input: `a="1" ; ` + strings.Repeat("f, ", n) + "g", Source: "huge-flat"})
	}
	return cs
}

func replay(cf *evid.CaseFile) error {
	var c Case
	if err := evid.Decode(cf.Gob, &c); err != nil {
		return err
	}
	if c.Source == "retain" {
		return retained(&c)
	}
	if c.Source == "concurrent" {
		return fmt.Errorf("a failure of the concurrent sub-check has no single-input replay; re-run ./check C09 quick")
	}
	// sequence-dependent failures (twins): replay the base forms first
	if c.Source == "twin" {
		for _, v := range []string{strings.ReplaceAll(c.Input, "  ", " "), strings.ReplaceAll(c.Input, "\t", " "), strings.ReplaceAll(strings.ReplaceAll(strings.ReplaceAll(c.Input, "\v", " "), "\u00a0", " "), "\u2003", " ")} {
			queryparser.ParseQuery(v)
		}
	}
	_, err := check(c.Input)
	return err
}

func TestQuick(t *testing.T) {
	fix.Pinned(t, prop, replay)
	for _, c := range fixedCases() {
		run(t, c)
	}
	fix.Check(t, "parse", 30000, func(rt *rapid.T) { run(rt, drawAny(rt)) })
	extra(t, 1)
}

// extra: the sub-checks that are about sequences of calls rather than one input.
func extra(t *testing.T, scale int) {
	fix.Check(t, "wrap-placeholder", 400*scale, func(rt *rapid.T) { run(rt, drawWrapPlaceholder(rt)) })
	fix.Check(t, "retain", 600*scale, func(rt *rapid.T) { run(rt, drawRetain(rt)) })
	fix.Check(t, "twins", 400*scale, func(rt *rapid.T) {
		base := drawTwinBase(rt)
		run(rt, &Case{Input: base, Source: "twin-base"})
		for _, tw := range twins(base) {
			run(rt, &Case{Input: tw, Source: "twin"})
		}
	})
	for _, s := range synlex {
		for i := 0; i < 300*scale; i++ {
			run(t, &Case{Input: s, Source: "syntax-then-lexical-error"})
		}
	}
	// a syntax error directly followed by a token that takes long to scan
	// (the lexer is still inside it when the parser has already given up)
	big := strings.Repeat("v", 256<<10)
	for _, s := range []string{`a a "` + big + `"`, `a = = ` + big, `a = "1" ) "` + big + `"`, `& "` + big, `a = "1" "` + big + `" junk`} {
		for i := 0; i < 12*scale; i++ {
			run(t, &Case{Input: s, Source: "syntax-error-then-huge-token"})
		}
	}
	concurrent(t, 4*scale)
}

// concurrent: after a few rejected inputs, G goroutines parse valid and
// invalid inputs at the same time; every call is judged by the reference.
func concurrent(t *testing.T, rounds int) {
	inputs := []string{`a = "1" & b = "2"`, `^ ( a = "x" | b = $2 ) ; a, b`, `a = "1" junk`, `a = $1`, `(((a="q")))`, `a = = "1"`, `a="""" | b="x""y"`, `c = "3" ; c`}
	var wantQ []*pb.Query
	var wantOK []bool
	for _, in := range inputs {
		q, rej := qref.Parse(in)
		wantQ, wantOK = append(wantQ, q), append(wantOK, rej == nil)
	}
	for r := 0; r < rounds; r++ {
		for _, bad := range []string{"a a !", ")", "a = "} {
			queryparser.ParseQuery(bad)
		}
		var wg sync.WaitGroup
		errs := make([]error, 8)
		for g := 0; g < 8; g++ {
			wg.Add(1)
			go func(g int) {
				defer wg.Done()
				errs[g] = fix.Safe(func() error {
					for i := 0; i < 1500; i++ {
						k := (i*7 + g) % len(inputs)
						q, err := queryparser.ParseQuery(inputs[k])
						if (err == nil) != wantOK[k] {
							return fmt.Errorf("concurrent ParseQuery(%+q): err=%v, reference accepts=%v", inputs[k], err, wantOK[k])
						}
						if err == nil && !proto.Equal(q, wantQ[k]) {
							return fmt.Errorf("concurrent ParseQuery(%+q) returned %s, want %s", inputs[k], qref.QueryString(q), qref.QueryString(wantQ[k]))
						}
					}
					return nil
				})
			}(g)
		}
		wg.Wait()
		evid.Case(true, fmt.Sprintf("[concurrent] round %d: 8 goroutines x 1500 ParseQuery calls over %d fixed inputs after 3 rejected inputs", r, len(inputs)), "source:concurrent")
		for _, e := range errs {
			if e != nil {
				c := &Case{Input: strings.Join(inputs, "\n"), Source: "concurrent"}
				fix.Fail(t, prop, "concurrent", c, c.Summary(), e)
			}
		}
	}
}

func TestThorough(t *testing.T) {
	if shard, _ := evid.Shard(); shard == 0 {
		fix.Pinned(t, prop, replay)
		for _, c := range fixedCases() {
			run(t, c)
		}
		for _, depth := range []int{100000} {
			run(t, &Case{Input: strings.Repeat("(", depth) + `a="1"` + strings.Repeat(")", depth), Source: "deep"})
			run(t, &Case{Input: strings.Repeat("^(", depth) + `a="1"` + strings.Repeat(")", depth), Source: "deep"})
		}
	}
	fix.Check(t, "parse", 200000, func(rt *rapid.T) { run(rt, drawAny(rt)) })
	extra(t, 5)
}

func TestReplay(t *testing.T) {
	cf := fix.ReplayFile(t)
	if err := replay(cf); err != nil {
		t.Fatalf("replay of %s/%s fails: %v", cf.Property, cf.Sub, err)
	}
}

// ---------------------------------------------------------------- native fuzzing (thorough tier)

func fuzzSeeds(f *testing.F) {
	for _, c := range fixedCases() {
		if len(c.Input) < 300 {
			f.Add(c.Input)
		}
	}
	for _, j := range junk {
		f.Add(`a = "1" ` + j)
	}
}

func FuzzParse(f *testing.F) {
	fuzzSeeds(f)
	f.Fuzz(func(t *testing.T, s string) {
		if len(s) > 1<<16 {
			return
		}
		c := &Case{Input: s, Source: "native-fuzz"}
		if _, err := check(s); err != nil {
			os.Setenv("VERIF_SHARD", "98")
			fix.Fail(t, prop, "parse", c, c.Summary(), err)
		}
	})
}

func FuzzParseStructured(f *testing.F) {
	f.Fuzz(rapid.MakeFuzz(func(rt *rapid.T) {
		c := drawAny(rt)
		c.Source = "structured-fuzz/" + c.Source
		if _, err := check(c.Input); err != nil {
			os.Setenv("VERIF_SHARD", "97")
			fix.Fail(rt, prop, "parse", c, c.Summary(), err)
		}
	}))
}
