// C17 — sql driver handles survive any open/close/concurrent-use sequence.
//
// Built with -race (GORACE=halt_on_error=1).  The driver registered with
// database/sql is a process-wide singleton, so a deadlock inside it wedges the
// process: when the deadlock oracle fires, the case file is written and the
// process exits at once (no shrinking for hangs).
package c17

import (
	"context"
	"database/sql"
	"fmt"
	"os"
	"os/exec"
	"path/filepath"
	"runtime"
	"strconv"
	"strings"
	"sync"
	"sync/atomic"
	"testing"
	"time"

	_ "github.com/akrennmair/updog/driver"
	"github.com/akrennmair/updog/internal/queryparser"
	pb "github.com/akrennmair/updog/proto/updog/v1"
	"github.com/akrennmair/updog/verifharness/evid"
	"github.com/akrennmair/updog/verifharness/fix"
	"github.com/akrennmair/updog/verifharness/gen"
	"github.com/akrennmair/updog/verifharness/model"
	"go.etcd.io/bbolt"
	"pgregory.net/rapid"
)

const prop = "C17"

func TestMain(m *testing.M) { fix.Main(m) }

const (
	AOpen = iota
	AQuery
	APrepQuery
	ABurst
	ASetPool
	AClose
	ARebuild // replace the file at the same path by an index of other content (only while no handle is open on it)
	AAppear  // a file that was MISSING so far is written now (handles that failed to open it may exist)
)

var actName = []string{"open", "query", "prepare+query", "burst", "setpool", "close", "rebuild", "appear"}

// Broken file kinds.
const (
	BOK            = iota
	BMissing       // the path does not exist: every use of a handle must return an error
	BGarbageBitmap // one bitmap undecodable: opening with preload must return an error
)

var optStrings = []string{"", "preload=true", "lrucache=true&lrucachesize=1048576", "preload=true&lrucache=true&lrucachesize=0"}

type Act struct {
	Kind    int
	Slot    int
	File    int
	Opt     int
	N       int // burst: goroutines
	Q       int // query index into the file's query list
	MaxOpen int
	MaxIdle int
	Via     int // open: the data source names the file through this kind of path alias
}

type Q struct {
	Expr    model.Expr
	GroupBy []string
}

type Case struct {
	Files   []gen.DataSpec
	Alt     []gen.DataSpec // content a rebuild puts at the same path
	Broken  []int
	Queries [][]Q
	Acts    []Act
}

func (c *Case) Summary() string {
	var b strings.Builder
	for i := range c.Files {
		fmt.Fprintf(&b, "file%d(%s)=%s ", i, []string{"ok", "MISSING", "one-garbage-bitmap"}[c.broken(i)], c.Files[i].Summary())
	}
	b.WriteString("history:")
	for _, a := range c.Acts {
		switch a.Kind {
		case AOpen:
			fmt.Fprintf(&b, " h%d=open(file%d,%q)", a.Slot, a.File, optStrings[a.Opt])
			if a.Via != fix.ViaPlain {
				fmt.Fprintf(&b, "[via %s]", fix.ViaName[a.Via])
			}
		case ABurst:
			fmt.Fprintf(&b, " burst(h%d,%d goroutines,q%d)", a.Slot, a.N, a.Q)
		case ASetPool:
			fmt.Fprintf(&b, " setpool(h%d,open=%d,idle=%d)", a.Slot, a.MaxOpen, a.MaxIdle)
		case ARebuild:
			fmt.Fprintf(&b, " rebuild(file%d)", a.File)
		case AAppear:
			fmt.Fprintf(&b, " the-missing-file%d-is-written-now", a.File)
		default:
			fmt.Fprintf(&b, " %s(h%d,q%d)", actName[a.Kind], a.Slot, a.Q)
		}
	}
	return b.String()
}

func (c *Case) broken(i int) int {
	if i < len(c.Broken) {
		return c.Broken[i]
	}
	return BOK
}

type handle struct {
	db   *sql.DB
	file int
	opt  int
	via  int
	// early: opened while its file did not exist yet
	early bool
}

type hangError struct{ msg string }

func (h *hangError) Error() string { return h.msg }

// guarded runs one action with the deadlock oracle: a goroutine parked in
// flock (on a file this very process holds) or waiting for the driver's mutex
// for 30 s cannot progress any more.
func guarded(label string, f func() error) error {
	err, hung, slow := fix.Watchdog(20*time.Second, []string{"syscall.Flock+updog/driver", "bbolt.flock+updog/driver", "sync.(*RWMutex)+updog/driver", "sync.(*Mutex)+updog/driver", "[chan receive+updog/driver.(*updogDriver)", "[select+updog/driver.(*updogDriver)", "[semacquire+updog/driver.(*updogDriver)", "[sync.Cond.Wait+updog/driver.(*updogDriver)"}, f)
	if hung != "" {
		return &hangError{fmt.Sprintf("%s does not complete: goroutine stuck:\n%s", label, hung)}
	}
	if slow {
		panic("INFRA: " + label + " is slow (>45s) but not provably stuck")
	}
	return err
}

func released(path string) error {
	db, err := bbolt.Open(path, 0o644, &bbolt.Options{Timeout: 2 * time.Second})
	if err != nil {
		return fmt.Errorf("file still locked after its last handle was closed: %v", err)
	}
	return db.Close()
}

type facts struct {
	rebuilt          bool
	appeared         bool
	reopenAfterClose bool
	burstFresh       bool
	twoOptsAtOnce    bool
}

func oracle(c *Case) (facts, error) {
	var f facts
	dir := fix.CaseDir()
	defer os.RemoveAll(dir)
	// the case runs inside its own directory: data sources of the kind
	// "relative name" name files relative to it
	if old, err := os.Getwd(); err == nil && os.Chdir(dir) == nil {
		defer os.Chdir(old)
	} else {
		return f, fmt.Errorf("INFRA: cannot change the working directory")
	}
	paths := make([]string, len(c.Files))
	datas := make([]*model.Data, len(c.Files))
	for i := range c.Files {
		rows := c.Files[i].Rows()
		p, _, err := fix.Build(dir, rows, fix.WMemFile)
		if err != nil {
			return f, fmt.Errorf("INFRA: %v", err)
		}
		paths[i], datas[i] = p, model.NewData(rows)
		switch c.broken(i) {
		case BMissing:
			os.Remove(p)
		case BGarbageBitmap:
			db, err := bbolt.Open(p, 0o644, nil)
			if err != nil {
				return f, fmt.Errorf("INFRA: %v", err)
			}
			db.Update(func(tx *bbolt.Tx) error {
				b := tx.Bucket([]byte("data"))
				k, _ := b.Cursor().Seek([]byte("V"))
				if k != nil && k[0] == 'V' {
					return b.Put(append([]byte(nil), k...), []byte{0xde, 0xad, 0xbe, 0xef, 9, 9, 9, 9})
				}
				return nil
			})
			db.Close()
		}
	}
	useAlt := make([]bool, len(c.Files))
	handles := map[int]*handle{}
	openCount := make([]int, len(c.Files))
	appeared := make([]bool, len(c.Files))
	closedOnce := map[string]bool{} // dsn that was opened and fully closed before
	fresh := map[int]bool{}         // slot not yet used for a query
	dsnOf := func(file, opt, via int) string {
		p := paths[file]
		if via == fix.ViaRelCwd && filepath.Dir(p) == dir {
			// a relative name with characters that mean themselves in a path
			// ('+' is a space only in a query string): a link beside the file
			rel := "rel+cwd=1,2@" + filepath.Base(p)
			if _, err := os.Lstat(filepath.Join(dir, rel)); err != nil {
				if err := os.Symlink(filepath.Base(p), filepath.Join(dir, rel)); err != nil {
					panic("INFRA: " + err.Error())
				}
			}
			s := "file:" + rel
			if optStrings[opt] != "" {
				s += "?" + optStrings[opt]
			}
			return s
		}
		if via != fix.ViaPlain {
			alias, lexical, err := fix.Alias(p, via)
			if err != nil {
				panic("INFRA: " + err.Error())
			}
			if lexical != p && file < len(c.Alt) {
				// where a purely textual clean-up of the alias points, another
				// valid index waits
				if _, err := os.Stat(lexical); err != nil {
					if _, err := fix.BuildAt(lexical, c.Alt[file].Rows(), fix.WMemFile); err != nil {
						panic("INFRA: " + err.Error())
					}
				}
			}
			p = alias
		}
		s := "file:" + p
		if optStrings[opt] != "" {
			s += "?" + optStrings[opt]
		}
		return s
	}
	runQuery := func(h *handle, qi int, prepare bool) error {
		q := c.Queries[h.file][qi%len(c.Queries[h.file])]
		text := queryparser.QueryToString(&pb.Query{Expr: fix.ToPB(q.Expr), GroupBy: q.GroupBy})
		var args []any
		if q.Expr.Op == model.OpEq && qi%2 == 1 {
			// the same comparison with the value passed as a bound argument;
			// goroutines of one burst pass different arguments at the same time
			text = queryparser.QueryToString(&pb.Query{Expr: &pb.Query_Expression{Value: &pb.Query_Expression_Eq{Eq: &pb.Query_Expression_Equal{Column: q.Expr.Col, Placeholder: 1}}}, GroupBy: q.GroupBy})
			args = []any{q.Expr.Val}
		}
		var got *fix.SQLRows
		err := fix.Safe(func() error {
			var r *sql.Rows
			var e error
			if prepare {
				st, pe := h.db.Prepare(text)
				if pe != nil {
					return pe
				}
				defer st.Close()
				r, e = st.Query(args...)
			} else {
				r, e = h.db.Query(text, args...)
			}
			if e != nil {
				return e
			}
			got, e = fix.ScanAll(r)
			return e
		})
		if fix.IsPanic(err) {
			return err
		}
		switch c.broken(h.file) {
		case BMissing:
			if !appeared[h.file] {
				if err == nil {
					return fmt.Errorf("query %+q on a handle whose file does not exist returned rows", text)
				}
				return nil
			}
			// the file exists by now.  A handle opened before that may keep
			// failing (no claim), but must not return wrong rows; a handle opened
			// afterwards is an ordinary handle on an ordinary file
			if h.early && err != nil {
				return nil
			}
		case BGarbageBitmap:
			if strings.Contains(optStrings[h.opt], "preload") && err == nil && len(datas[h.file].Columns()) > 0 {
				return fmt.Errorf("query %+q on a preloading handle over a file with an undecodable bitmap returned rows", text)
			}
			return nil // without preload the outcome is not specified; only hangs and panics count
		}
		d := datas[h.file]
		if d.Rejects(q.Expr, q.GroupBy) {
			if err == nil {
				return fmt.Errorf("query %+q on an unknown column returned rows", text)
			}
			return nil
		}
		if err != nil {
			return fmt.Errorf("query %+q on an open handle failed: %v", text, err)
		}
		return fix.CheckRows(got, q.GroupBy, d.Query(q.Expr, q.GroupBy))
	}
	closeHandle := func(slot int) error {
		h := handles[slot]
		delete(handles, slot)
		if err := guarded(fmt.Sprintf("Close(h%d)", slot), func() error { return h.db.Close() }); err != nil {
			if _, ok := err.(*hangError); ok || fix.IsPanic(err) {
				return err
			}
		}
		openCount[h.file]--
		stillOpen := false
		for _, o := range handles {
			if o.file == h.file && o.opt == h.opt && o.via == h.via {
				stillOpen = true
			}
		}
		if !stillOpen {
			closedOnce[dsnOf(h.file, h.opt, h.via)] = true
		}
		if openCount[h.file] == 0 && (c.broken(h.file) != BMissing || appeared[h.file]) {
			if err := released(paths[h.file]); err != nil {
				return fmt.Errorf("after Close(h%d): %v", slot, err)
			}
		}
		return nil
	}
	for step, a := range c.Acts {
		label := fmt.Sprintf("step %d %s(h%d)", step, actName[a.Kind], a.Slot)
		switch a.Kind {
		case AOpen:
			if handles[a.Slot] != nil {
				continue
			}
			dsn := dsnOf(a.File, a.Opt, a.Via)
			if closedOnce[dsn] {
				f.reopenAfterClose = true
			}
			for _, o := range handles {
				if o.file == a.File && o.opt != a.Opt {
					f.twoOptsAtOnce = true
				}
			}
			db, err := sql.Open("updog", dsn)
			if err != nil {
				return f, fmt.Errorf("%s: sql.Open(%q): %v", label, dsn, err)
			}
			handles[a.Slot] = &handle{db: db, file: a.File, opt: a.Opt, via: a.Via, early: c.broken(a.File) == BMissing && !appeared[a.File]}
			openCount[a.File]++
			fresh[a.Slot] = true
		case AQuery, APrepQuery:
			h := handles[a.Slot]
			if h == nil {
				continue
			}
			fresh[a.Slot] = false
			if err := guarded(label, func() error { return runQuery(h, a.Q, a.Kind == APrepQuery) }); err != nil {
				return f, fmt.Errorf("%s: %v", label, err)
			}
		case ABurst:
			h := handles[a.Slot]
			if h == nil {
				continue
			}
			if fresh[a.Slot] {
				f.burstFresh = true
			}
			fresh[a.Slot] = false
			err := guarded(label, func() error {
				start := make(chan struct{})
				errs := make([]error, a.N)
				var wg sync.WaitGroup
				for g := 0; g < a.N; g++ {
					wg.Add(1)
					go func(g int) {
						defer wg.Done()
						<-start
						errs[g] = runQuery(h, a.Q+g, g%3 == 2)
					}(g)
				}
				close(start)
				wg.Wait()
				for g, e := range errs {
					if e != nil {
						return fmt.Errorf("goroutine %d: %v", g, e)
					}
				}
				return nil
			})
			if err != nil {
				return f, fmt.Errorf("%s: %v", label, err)
			}
		case ASetPool:
			if h := handles[a.Slot]; h != nil {
				h.db.SetMaxOpenConns(a.MaxOpen)
				h.db.SetMaxIdleConns(a.MaxIdle)
			}
		case AAppear:
			if a.File >= len(c.Files) || c.broken(a.File) != BMissing || appeared[a.File] {
				continue
			}
			if _, err := fix.BuildAt(paths[a.File], c.Files[a.File].Rows(), fix.WMemFile); err != nil {
				return f, fmt.Errorf("INFRA: appear: %v", err)
			}
			appeared[a.File] = true
			f.appeared = true
		case ARebuild:
			if a.File >= len(c.Files) || openCount[a.File] != 0 || c.broken(a.File) != BOK || a.File >= len(c.Alt) {
				continue
			}
			useAlt[a.File] = !useAlt[a.File]
			spec := &c.Files[a.File]
			if useAlt[a.File] {
				spec = &c.Alt[a.File]
			}
			os.Remove(paths[a.File])
			if _, err := fix.BuildAt(paths[a.File], spec.Rows(), fix.WMemFile); err != nil {
				return f, fmt.Errorf("INFRA: rebuild: %v", err)
			}
			datas[a.File] = model.NewData(spec.Rows())
			f.rebuilt = true
		case AClose:
			if handles[a.Slot] == nil {
				continue
			}
			if err := closeHandle(a.Slot); err != nil {
				return f, fmt.Errorf("%s: %v", label, err)
			}
		}
	}
	for slot := 0; slot < 8; slot++ {
		if handles[slot] != nil {
			if err := closeHandle(slot); err != nil {
				return f, fmt.Errorf("final Close(h%d): %v", slot, err)
			}
		}
	}
	return f, nil
}

func run(t interface{ Fatalf(string, ...any) }, c *Case) {
	evid.Inflight(prop, "history", c, c.Summary())
	f, err := oracle(c)
	evid.ClearInflight(prop, "history")
	if err != nil && strings.HasPrefix(err.Error(), "INFRA:") {
		panic(err.Error())
	}
	var cl []string
	if f.reopenAfterClose {
		cl = append(cl, "reopen-same-dsn-after-close")
	}
	if f.burstFresh {
		cl = append(cl, "burst-on-fresh-handle")
	}
	if f.twoOptsAtOnce {
		cl = append(cl, "two-option-strings-on-one-file-at-once")
	}
	if f.rebuilt {
		cl = append(cl, "file-rebuilt-at-same-path")
	}
	if f.appeared {
		cl = append(cl, "missing-file-written-later")
	}
	for i := range c.Files {
		if c.broken(i) != BOK {
			cl = append(cl, "broken-file")
			break
		}
	}
	evid.Case(f.reopenAfterClose || f.burstFresh, c.Summary(), cl...)
	if err != nil {
		if _, hung := err.(*hangError); hung || strings.Contains(err.Error(), "does not complete") {
			// the process is wedged (driver singleton): record and leave
			evid.WriteCase(prop, "history", c, c.Summary(), err)
			evid.Flush()
			fmt.Printf("HANG: %v\n", err)
			os.Exit(3)
		}
		fix.Fail(t, prop, "history", c, c.Summary(), err)
	}
}

func drawCase(t *rapid.T, maxActs int) *Case {
	c := &Case{}
	nf := rapid.IntRange(1, 3).Draw(t, "nfiles")
	for i := 0; i < nf; i++ {
		var spec *gen.DataSpec
		if rapid.IntRange(0, 2).Draw(t, "big") == 0 {
			spec = gen.DrawRecipe(t, 6000, false)
			spec.Recipe.N = rapid.SampledFrom([]int{3000, 4097, 6000}).Draw(t, "n")
		} else {
			spec = gen.Explicit(t, gen.DataOpts{MaxRows: 20, IdentCols: true})
		}
		c.Files = append(c.Files, *spec)
		// the alternative content has the same shape (same number of rows, same
		// columns) but other values: a rebuilt file of similar size
		alt := gen.DataSpec{}
		for _, r := range spec.Rows() {
			nr := model.Row{}
			for k, v := range r {
				nr[k] = v + "'"
			}
			alt.Explicit = append(alt.Explicit, nr)
		}
		if spec.Recipe != nil {
			alt = *spec // large files: rebuild with identical content (still a new file)
		}
		c.Alt = append(c.Alt, alt)
		b := BOK
		if rapid.IntRange(0, 7).Draw(t, "broken") == 0 {
			b = rapid.IntRange(BMissing, BGarbageBitmap).Draw(t, "brokenkind")
		}
		c.Broken = append(c.Broken, b)
		d := model.NewData(spec.Rows())
		pool := gen.NewLeafPool(d)
		var qs []Q
		for k := 0; k < 4; k++ {
			// plain comparisons (run with the value as a bound argument half of the time)
			qs = append(qs, Q{Expr: pool.Leaf(t, gen.ExprOpts{})})
		}
		for k := 0; k < 5; k++ {
			q := Q{Expr: pool.Expr(t, gen.ExprOpts{MaxDepth: 3})}
			if rapid.Bool().Draw(t, "gb") && spec.Recipe == nil {
				q.GroupBy = pool.GroupBy(t, 2, 0)
			}
			qs = append(qs, q)
		}
		c.Queries = append(c.Queries, qs)
	}
	// simulate handle slots so that actions mostly make sense
	open := map[int][3]int{}
	closedDSN := [][3]int{}
	n := rapid.IntRange(2, maxActs).Draw(t, "nacts")
	for i := 0; i < n; i++ {
		k := rapid.IntRange(0, 9).Draw(t, "act")
		for fi, b := range c.Broken {
			if b == BMissing && i > 1 && rapid.IntRange(0, 7).Draw(t, "appear?") == 0 {
				c.Acts = append(c.Acts, Act{Kind: AAppear, File: fi}) // a second one for the same file is ignored
			}
		}
		if len(open) == 0 || (k < 3 && len(open) < 4) {
			a := Act{Kind: AOpen, File: rapid.IntRange(0, nf-1).Draw(t, "file"), Opt: rapid.IntRange(0, len(optStrings)-1).Draw(t, "opt")}
			if len(closedDSN) > 0 && rapid.Bool().Draw(t, "reopen") {
				p := closedDSN[rapid.IntRange(0, len(closedDSN)-1).Draw(t, "which")]
				a.File, a.Opt, a.Via = p[0], p[1], p[2]
			} else if rapid.IntRange(0, 3).Draw(t, "alias") == 0 {
				a.Via = rapid.IntRange(1, fix.NVia-1).Draw(t, "via")
			}
			for s := 0; s < 8; s++ {
				if _, used := open[s]; !used {
					a.Slot = s
					break
				}
			}
			open[a.Slot] = [3]int{a.File, a.Opt, a.Via}
			c.Acts = append(c.Acts, a)
			continue
		}
		slots := make([]int, 0, len(open))
		for s := 0; s < 8; s++ {
			if _, ok := open[s]; ok {
				slots = append(slots, s)
			}
		}
		slot := slots[rapid.IntRange(0, len(slots)-1).Draw(t, "slot")]
		switch {
		case k < 5:
			c.Acts = append(c.Acts, Act{Kind: AQuery + rapid.IntRange(0, 1).Draw(t, "prep"), Slot: slot, Q: rapid.IntRange(0, 8).Draw(t, "q")})
		case k < 7:
			c.Acts = append(c.Acts, Act{Kind: ABurst, Slot: slot, N: rapid.IntRange(2, 16).Draw(t, "n"), Q: rapid.IntRange(0, 8).Draw(t, "q")})
		case k < 8:
			c.Acts = append(c.Acts, Act{Kind: ASetPool, Slot: slot, MaxOpen: rapid.IntRange(0, 4).Draw(t, "maxopen"), MaxIdle: rapid.IntRange(0, 4).Draw(t, "maxidle")})
		default:
			c.Acts = append(c.Acts, Act{Kind: AClose, Slot: slot})
			closedDSN = append(closedDSN, open[slot])
			f := open[slot][0]
			delete(open, slot)
			still := false
			for _, o := range open {
				if o[0] == f {
					still = true
				}
			}
			if !still && rapid.IntRange(0, 1).Draw(t, "rebuild") == 0 {
				c.Acts = append(c.Acts, Act{Kind: ARebuild, File: f})
				if rapid.IntRange(0, 3).Draw(t, "reopen-after-rebuild") > 0 {
					// the data source that was just closed is opened again on the new
					// file and asked the same kind of questions: whatever the driver
					// remembers about a data source must not outlive its last handle
					last := closedDSN[len(closedDSN)-1]
					a := Act{Kind: AOpen, File: last[0], Opt: last[1], Via: last[2], Slot: slot}
					open[slot] = last
					c.Acts = append(c.Acts, a)
					for k, nq := 0, rapid.IntRange(1, 4).Draw(t, "nq-after-rebuild"); k < nq; k++ {
						c.Acts = append(c.Acts, Act{Kind: AQuery + rapid.IntRange(0, 1).Draw(t, "prep"), Slot: slot, Q: rapid.IntRange(0, 8).Draw(t, "q")})
					}
				}
			}
		}
	}
	return c
}

// drawReincarnation: one data source is used, closed completely, its file is
// replaced by an index of other content, and the same data source is opened
// and asked the same questions again - twice.  Whatever the driver remembers
// about a data source must die with its last handle.
func drawReincarnation(t *rapid.T) *Case {
	c := drawCase(t, 2)
	c.Acts = nil
	file := rapid.IntRange(0, len(c.Files)-1).Draw(t, "rfile")
	if file < len(c.Broken) {
		c.Broken[file] = BOK
	}
	opt := rapid.IntRange(0, len(optStrings)-1).Draw(t, "ropt")
	via := 0
	if rapid.IntRange(0, 3).Draw(t, "ralias") == 0 {
		via = rapid.IntRange(1, fix.NVia-1).Draw(t, "rvia")
	}
	for round := 0; round < 3; round++ {
		c.Acts = append(c.Acts, Act{Kind: AOpen, Slot: 0, File: file, Opt: opt, Via: via})
		for q := 0; q < 9; q++ {
			c.Acts = append(c.Acts, Act{Kind: AQuery + (q+round)%2, Slot: 0, Q: q})
		}
		if round == 1 && rapid.Bool().Draw(t, "rburst") {
			c.Acts = append(c.Acts, Act{Kind: ABurst, Slot: 0, N: 4, Q: rapid.IntRange(0, 8).Draw(t, "rbq")})
		}
		c.Acts = append(c.Acts, Act{Kind: AClose, Slot: 0})
		if round < 2 {
			c.Acts = append(c.Acts, Act{Kind: ARebuild, File: file})
		}
	}
	return c
}

// drawLateFile: a data source is opened and used before its file exists
// (every use fails), then the file is written, then the old handle is used
// again and a new handle on the same data source is opened: the new one must
// answer correctly, whatever the driver remembers about the earlier failures.
func drawLateFile(t *rapid.T) *Case {
	c := drawCase(t, 2)
	c.Acts = nil
	file := rapid.IntRange(0, len(c.Files)-1).Draw(t, "lfile")
	for len(c.Broken) <= file {
		c.Broken = append(c.Broken, BOK)
	}
	c.Broken[file] = BMissing
	opt := rapid.IntRange(0, len(optStrings)-1).Draw(t, "lopt")
	c.Acts = append(c.Acts, Act{Kind: AOpen, Slot: 0, File: file, Opt: opt})
	for q := 0; q < rapid.IntRange(1, 3).Draw(t, "lq"); q++ {
		c.Acts = append(c.Acts, Act{Kind: AQuery + q%2, Slot: 0, Q: q})
	}
	if rapid.Bool().Draw(t, "lburst") {
		c.Acts = append(c.Acts, Act{Kind: ABurst, Slot: 0, N: 3, Q: 1})
	}
	c.Acts = append(c.Acts, Act{Kind: AAppear, File: file})
	c.Acts = append(c.Acts, Act{Kind: AQuery, Slot: 0, Q: 2})
	if rapid.Bool().Draw(t, "lcloseold") {
		c.Acts = append(c.Acts, Act{Kind: AClose, Slot: 0})
	}
	c.Acts = append(c.Acts, Act{Kind: AOpen, Slot: 1, File: file, Opt: opt})
	for q := 0; q < 5; q++ {
		c.Acts = append(c.Acts, Act{Kind: AQuery + q%2, Slot: 1, Q: q})
	}
	c.Acts = append(c.Acts, Act{Kind: AClose, Slot: 1})
	return c
}

// ---------------------------------------------------------------- thousands of failing uses

// failedUseFlood: a handle on a file that does not exist (and one on a file
// with an undecodable bitmap, opened with preload) is used thousands of times;
// every use fails.  Failing must not cost descriptors or goroutines, and
// afterwards an ordinary handle on an ordinary file works.
func failedUseFlood(t *testing.T, n int) {
	dir := fix.CaseDir()
	defer os.RemoveAll(dir)
	rows := []model.Row{{"a": "1", "b": "x"}, {"a": "2", "b": "x"}, {"a": "2"}}
	good, _, err := fix.Build(dir, rows, fix.WMemFile)
	if err != nil {
		panic("INFRA: " + err.Error())
	}
	bad, err := fix.CopyFile(dir, good)
	if err != nil {
		panic("INFRA: " + err.Error())
	}
	if db, err := bbolt.Open(bad, 0o644, nil); err == nil {
		db.Update(func(tx *bbolt.Tx) error {
			b := tx.Bucket([]byte("data"))
			k, _ := b.Cursor().Seek([]byte("V"))
			return b.Put(append([]byte(nil), k...), []byte{0xde, 0xad, 0xbe, 0xef, 9, 9, 9, 9})
		})
		db.Close()
	}
	c := &Case{}
	err = guarded("failed-use flood", func() error {
		missing, _ := sql.Open("updog", "file:"+filepath.Join(dir, "does-not-exist.updog"))
		broken, _ := sql.Open("updog", "file:"+bad+"?preload=true")
		cutPath := filepath.Join(dir, "cut.updog")
		if raw, rerr := os.ReadFile(good); rerr != nil || len(raw) < 5*4096 {
			panic("INFRA: cannot cut the good file short")
		} else if werr := os.WriteFile(cutPath, raw[:len(raw)/2/4096*4096], 0o644); werr != nil {
			panic("INFRA: " + werr.Error())
		}
		cut, _ := sql.Open("updog", "file:"+cutPath)
		defer cut.Close()
		defer missing.Close()
		defer broken.Close()
		use := func(db *sql.DB, i int) error {
			return fix.Safe(func() error {
				var r *sql.Rows
				var e error
				if i%2 == 0 {
					r, e = db.Query(`a = "1"`)
				} else {
					r, e = db.Query(`a = $1 ; b`, "2")
				}
				if e != nil {
					return e
				}
				defer r.Close()
				for r.Next() {
				}
				return r.Err()
			})
		}
		for i := 0; i < 20; i++ {
			use(missing, i)
			use(broken, i)
			use(cut, i)
		}
		runtime.GC()
		fd0, g0 := fix.FDCount(0), runtime.NumGoroutine()
		failed := 0
		gcOn := fix.NoGC()
		defer gcOn()
		for i := 0; i < n; i++ {
			for _, db := range []*sql.DB{missing, broken, cut} {
				err := use(db, i)
				if fix.IsPanic(err) {
					return err
				}
				if err == nil {
					return fmt.Errorf("use %d of a handle whose file is missing, has an undecodable bitmap (preload) or ends before its last pages returned rows", i)
				}
				failed++
			}
		}
		time.Sleep(50 * time.Millisecond)
		fd1 := fix.FDCount(0) // before any collection: finalizers would close what was left open
		gcOn()
		runtime.GC()
		g1 := runtime.NumGoroutine()
		evid.Case(true, fmt.Sprintf("failed-use flood: %d failing uses; descriptors %d -> %d, goroutines %d -> %d", failed, fd0, fd1, g0, g1), "failed-use-flood")
		if fd0 >= 0 && fd1 > fd0+8 {
			return fmt.Errorf("after %d failing uses of handles the process holds %d open descriptors, %d before", failed, fd1, fd0)
		}
		if g1 > g0+12 {
			return fmt.Errorf("after %d failing uses of handles the process has %d goroutines, %d before", failed, g1, g0)
		}
		ok, err := sql.Open("updog", "file:"+good)
		if err != nil {
			return err
		}
		defer ok.Close()
		var got *fix.SQLRows
		if err := fix.Safe(func() error {
			r, e := ok.Query(`a = "2" ; b`)
			if e != nil {
				return e
			}
			got, e = fix.ScanAll(r)
			return e
		}); err != nil {
			return fmt.Errorf("after %d failing uses an ordinary handle fails: %v", failed, err)
		}
		d := model.NewData(rows)
		return fix.CheckRows(got, []string{"b"}, d.Query(model.Eq("a", "2"), []string{"b"}))
	})
	if err != nil {
		if _, hung := err.(*hangError); hung {
			evid.WriteCase(prop, "flood", c, "failed-use flood", err)
			evid.Flush()
			fmt.Printf("HANG: %v\n", err)
			os.Exit(3)
		}
		fix.Fail(t, prop, "flood", c, "failed-use flood", err)
	}
	if err := released(bad); err != nil {
		fix.Fail(t, prop, "flood", c, "failed-use flood", fmt.Errorf("the file with the undecodable bitmap: %v", err))
	}
}

// ---------------------------------------------------------------- a query given up by its caller, then Close

// CancelCase: a query that takes about a second is started with a context
// that expires after a few milliseconds; whatever the call returns (a context
// error or the rows), the handle is closed right afterwards and the process
// lives on for two seconds.  Nothing may crash (an abandoned query must not
// outlive the index it reads), and the file must be released.
type CancelCase struct {
	Opts      string
	TimeoutMS int
	Rows      int
}

func (c *CancelCase) Summary() string {
	return fmt.Sprintf("cancel: %d rows, dsn options %q, three-column group-by under a %d ms deadline, then Close at once", c.Rows, c.Opts, c.TimeoutMS)
}

func cancelOracle(c *CancelCase) error {
	dir := fix.CaseDir()
	defer os.RemoveAll(dir)
	spec := gen.DataSpec{Recipe: &gen.Recipe{N: c.Rows, Cols: []gen.ColSpec{
		{Name: "a", Kind: gen.KMod, K: 53, Prefix: "v"}, {Name: "b", Kind: gen.KMod, K: 41}, {Name: "c", Kind: gen.KMod, K: 29, Prefix: "w"}}}}
	path, _, err := fix.Build(dir, spec.Rows(), fix.WMemFile)
	if err != nil {
		return fmt.Errorf("INFRA: %v", err)
	}
	dsn := "file:" + path
	if c.Opts != "" {
		dsn += "?" + c.Opts
	}
	db, err := sql.Open("updog", dsn)
	if err != nil {
		return err
	}
	ctx, cancel := context.WithTimeout(context.Background(), time.Duration(c.TimeoutMS)*time.Millisecond)
	qerr := fix.Safe(func() error {
		rows, err := db.QueryContext(ctx, `^a = "none" ; a, b, c`)
		if err != nil {
			return err
		}
		n := 0
		for rows.Next() {
			n++
		}
		rows.Close()
		if rows.Err() == nil && n != 53*41*29 && c.Rows >= 53*41*29 {
			return fmt.Errorf("query under a deadline returned %d rows without an error, %d groups exist", n, 53*41*29)
		}
		return nil
	})
	cancel()
	if fix.IsPanic(qerr) {
		return qerr
	}
	if qerr != nil && strings.Contains(qerr.Error(), "groups exist") {
		return qerr
	}
	cerr := fix.Safe(db.Close)
	if fix.IsPanic(cerr) {
		return cerr
	}
	time.Sleep(2 * time.Second) // a query left running would still be at it
	if err := released(path); err != nil {
		return fmt.Errorf("after a query given up by its caller and Close: %v", err)
	}
	return nil
}

func runCancel(t interface{ Fatalf(string, ...any) }, c *CancelCase) {
	evid.Inflight(prop, "cancel", c, c.Summary())
	err := cancelOracle(c)
	evid.ClearInflight(prop, "cancel")
	if err != nil && strings.HasPrefix(err.Error(), "INFRA:") {
		panic(err.Error())
	}
	evid.Case(true, c.Summary(), "query-given-up-then-close")
	if err != nil {
		fix.Fail(t, prop, "cancel", c, c.Summary(), err)
	}
}

// ---------------------------------------------------------------- connection churn

// ChurnCase: one file, one option string, handles whose pools keep no idle
// connection, so every query opens a driver connection and closes it again:
// the last Close of a cached file connection keeps overlapping with the Open
// of the next one.  A second family of goroutines opens, queries and closes
// whole handles on the same DSN.
type ChurnCase struct {
	Data       gen.DataSpec
	Opt        int
	Goroutines int
	PerG       int
	Handles    int
	MaxOpen    int
}

func (c *ChurnCase) Summary() string {
	return fmt.Sprintf("churn: %s opts=%q goroutines=%d x %d queries on a handle with MaxIdleConns(0) MaxOpenConns(%d), plus %d goroutines cycling sql.Open/Query/Close on the same DSN", c.Data.Summary(), optStrings[c.Opt], c.Goroutines, c.PerG, c.MaxOpen, c.Handles)
}

func churnOracle(c *ChurnCase) error {
	dir := fix.CaseDir()
	defer os.RemoveAll(dir)
	rows := c.Data.Rows()
	d := model.NewData(rows)
	path, _, err := fix.Build(dir, rows, fix.WMemFile)
	if err != nil {
		return fmt.Errorf("INFRA: %v", err)
	}
	dsn := "file:" + path
	if optStrings[c.Opt] != "" {
		dsn += "?" + optStrings[c.Opt]
	}
	cols := d.Columns()
	if len(cols) == 0 {
		return nil
	}
	e := model.Not(model.Eq(cols[0], "\x01none"))
	text := queryparser.QueryToString(&pb.Query{Expr: fix.ToPB(e)})
	want := d.Query(e, nil)
	one := func(db *sql.DB) error {
		var got *fix.SQLRows
		err := fix.Safe(func() error {
			r, e := db.Query(text)
			if e != nil {
				return e
			}
			got, e = fix.ScanAll(r)
			return e
		})
		if err != nil {
			if fix.IsPanic(err) {
				return err
			}
			return fmt.Errorf("query on an open handle failed: %v", err)
		}
		return fix.CheckRows(got, nil, want)
	}
	err = guarded("connection churn", func() error {
		db, err := sql.Open("updog", dsn)
		if err != nil {
			return err
		}
		db.SetMaxIdleConns(0)
		db.SetMaxOpenConns(c.MaxOpen)
		start := make(chan struct{})
		n := c.Goroutines + c.Handles
		errs := make([]error, n)
		var wg sync.WaitGroup
		for g := 0; g < n; g++ {
			wg.Add(1)
			go func(g int) {
				defer wg.Done()
				<-start
				for i := 0; i < c.PerG && errs[g] == nil; i++ {
					if g < c.Goroutines {
						errs[g] = one(db)
						continue
					}
					h, err := sql.Open("updog", dsn)
					if err != nil {
						errs[g] = err
						return
					}
					errs[g] = one(h)
					if cerr := fix.Safe(h.Close); fix.IsPanic(cerr) && errs[g] == nil {
						errs[g] = cerr
					}
				}
			}(g)
		}
		close(start)
		wg.Wait()
		cerr := fix.Safe(db.Close)
		for g, e := range errs {
			if e != nil {
				return fmt.Errorf("goroutine %d: %v", g, e)
			}
		}
		if fix.IsPanic(cerr) {
			return cerr
		}
		return nil
	})
	if err != nil {
		return err
	}
	return released(path)
}

func runChurn(t interface{ Fatalf(string, ...any) }, c *ChurnCase) {
	evid.Inflight(prop, "churn", c, c.Summary())
	err := churnOracle(c)
	evid.ClearInflight(prop, "churn")
	if err != nil && strings.HasPrefix(err.Error(), "INFRA:") {
		panic(err.Error())
	}
	evid.Note("churn_open_close_cycles", int64((c.Goroutines+c.Handles)*c.PerG))
	evid.Case(true, c.Summary(), "connection-churn")
	if err != nil {
		if _, hung := err.(*hangError); hung {
			evid.WriteCase(prop, "churn", c, c.Summary(), err)
			evid.Flush()
			fmt.Printf("HANG: %v\n", err)
			os.Exit(3)
		}
		fix.Fail(t, prop, "churn", c, c.Summary(), err)
	}
}

func drawChurn(t *rapid.T) *ChurnCase {
	c := drawChurn1(t)
	if rapid.IntRange(0, 2).Draw(t, "cyclers-only") == 0 {
		// nobody keeps a connection: the data source's connection count crosses
		// zero all the time while another handle is being opened
		c.Goroutines = rapid.IntRange(0, 1).Draw(t, "fewg")
		c.Handles = rapid.IntRange(2, 4).Draw(t, "cyclers")
	}
	return c
}

func drawChurn1(t *rapid.T) *ChurnCase {
	return &ChurnCase{
		Data:       gen.DataSpec{Explicit: append([]model.Row{{"a": "1"}}, gen.Explicit(t, gen.DataOpts{MaxRows: 6, IdentCols: true}).Rows()...)},
		Opt:        rapid.SampledFrom([]int{0, 0, 0, 1, 2, 3}).Draw(t, "opt"),
		Goroutines: rapid.SampledFrom([]int{2, 2, 3, 4, 4, 8, 12}).Draw(t, "goroutines"),
		PerG:       rapid.IntRange(300, 1500).Draw(t, "perg"),
		Handles:    rapid.IntRange(0, 4).Draw(t, "handles"),
		MaxOpen:    rapid.SampledFrom([]int{0, 0, 2, 5}).Draw(t, "maxopen"),
	}
}

func replay(cf *evid.CaseFile) error {
	if cf.Sub == "flood" {
		return fmt.Errorf("a failure of the failed-use flood is reproduced by ./check C17 quick")
	}
	if cf.Sub == "first-use" {
		var c FirstCase
		if err := evid.Decode(cf.Gob, &c); err != nil {
			return err
		}
		if err := firstOracle(&c); err != nil {
			return err
		}
		return firstInChildren(&c, 6)
	}
	if cf.Sub == "cancel" {
		var c CancelCase
		if err := evid.Decode(cf.Gob, &c); err != nil {
			return err
		}
		return cancelOracle(&c)
	}
	if cf.Sub == "churn" {
		var c ChurnCase
		if err := evid.Decode(cf.Gob, &c); err != nil {
			return err
		}
		var err error
		for i := 0; i < 10 && err == nil; i++ {
			err = churnOracle(&c)
		}
		return err
	}
	var c Case
	if err := evid.Decode(cf.Gob, &c); err != nil {
		return err
	}
	var err error
	for i := 0; i < 3 && err == nil; i++ { // bursts are schedule dependent
		_, err = oracle(&c)
	}
	return err
}

// FirstCase: the very first queries of the process arrive together, on one
// handle, from several goroutines (whatever the library sets up on first use
// is set up under concurrency).  It has to run before anything else of the
// test process has parsed or executed a query.
type FirstCase struct{ Goroutines int }

func (c *FirstCase) Summary() string {
	return fmt.Sprintf("the first %d queries of the process, issued at the same moment on one handle", c.Goroutines)
}

func firstOracle(c *FirstCase) error {
	dir := fix.CaseDir()
	defer os.RemoveAll(dir)
	cols := []string{"zeta_9", "Alpha_x1", "b", "long_identifier_with_many_parts_42", "Q", "m_", "x9_y8_z7", "UPPER_lower"}
	var rows []model.Row
	for i := 0; i < 60; i++ {
		r := model.Row{}
		for j, col := range cols {
			r[col] = fmt.Sprintf("v%d", (i+j)%(2+j%3))
		}
		rows = append(rows, r)
	}
	d := model.NewData(rows)
	path, _, err := fix.Build(dir, rows, fix.WMemFile)
	if err != nil {
		return fmt.Errorf("INFRA: %v", err)
	}
	db, err := sql.Open("updog", "file:"+path)
	if err != nil {
		return err
	}
	defer db.Close()
	db.SetMaxOpenConns(c.Goroutines)
	// every goroutine gets a connection of its own before the start: nothing
	// (not even the pool's lock) orders the first queries after one another
	conns := make([]*sql.Conn, c.Goroutines)
	for g := range conns {
		cn, err := db.Conn(context.Background())
		if err != nil {
			return fmt.Errorf("connection %d: %v", g, err)
		}
		defer cn.Close()
		conns[g] = cn
	}
	var arrived atomic.Int32
	errs := make([]error, c.Goroutines)
	var wg sync.WaitGroup
	for g := 0; g < c.Goroutines; g++ {
		wg.Add(1)
		go func(g int) {
			defer wg.Done()
			a, b := cols[g%len(cols)], cols[(g+3)%len(cols)]
			e := model.And(model.Eq(a, "v1"), model.Not(model.Eq(b, "v0")))
			gb := []string{cols[(g+5)%len(cols)]}
			text := fmt.Sprintf(`%s = "v1" & ^%s = "v0" ; %s`, a, b, gb[0])
			arrived.Add(1)
			for spin := 0; spin < 500000 && int(arrived.Load()) < c.Goroutines; spin++ {
				if spin%64 == 63 {
					runtime.Gosched()
				}
			}
			errs[g] = fix.Safe(func() error {
				r, err := conns[g].QueryContext(context.Background(), text)
				if err != nil {
					return fmt.Errorf("query %+q (among the first of the process): %v", text, err)
				}
				got, err := fix.ScanAll(r)
				if err != nil {
					return err
				}
				if err := fix.CheckRows(got, gb, d.Query(e, gb)); err != nil {
					return fmt.Errorf("query %+q (among the first of the process): %v", text, err)
				}
				return nil
			})
		}(g)
	}
	wg.Wait()
	for _, e := range errs {
		if e != nil {
			return e
		}
	}
	return nil
}

// TestFirstUseChild is the body of the child processes started by runFirst.
func TestFirstUseChild(t *testing.T) {
	n, _ := strconv.Atoi(os.Getenv("VERIF_FIRSTUSE_CHILD"))
	if n == 0 {
		t.Skip("only run as a child of runFirst")
	}
	if err := firstOracle(&FirstCase{Goroutines: n}); err != nil {
		fmt.Printf("FIRST-USE-FAILS: %v\n", err)
		os.Exit(67)
	}
}

// firstInChildren repeats the first-use case in fresh processes (a process
// has only one first moment; whether two goroutines really meet in it depends
// on the load of the machine).
func firstInChildren(c *FirstCase, children int) error {
	for k := 0; k < children; k++ {
		cmd := exec.Command(os.Args[0], "-test.run", "^TestFirstUseChild$", "-test.count=1")
		for _, e := range os.Environ() {
			if !strings.HasPrefix(e, "VERIF_EVID_OUT=") && !strings.HasPrefix(e, "VERIF_REPLAY_FILE=") {
				cmd.Env = append(cmd.Env, e)
			}
		}
		cmd.Env = append(cmd.Env, fmt.Sprintf("VERIF_FIRSTUSE_CHILD=%d", c.Goroutines))
		done := make(chan struct{})
		var out []byte
		var err error
		go func() { out, err = cmd.CombinedOutput(); close(done) }()
		select {
		case <-done:
		case <-time.After(120 * time.Second):
			if cmd.Process != nil {
				cmd.Process.Kill()
			}
			<-done
			panic("INFRA: first-use child process did not finish within 120 s")
		}
		if err != nil {
			txt := string(out)
			if len(txt) > 3000 {
				txt = txt[:3000]
			}
			return fmt.Errorf("fresh process %d whose first %d queries are issued at the same moment fails (%v):\n%s", k, c.Goroutines, err, txt)
		}
	}
	return nil
}

func runFirst(t *testing.T, c *FirstCase) {
	evid.Inflight(prop, "first-use", c, c.Summary())
	err := firstOracle(c)
	evid.ClearInflight(prop, "first-use")
	if err == nil && os.Getenv("VERIF_REPLAY_FILE") == "" {
		err = firstInChildren(c, 6)
		evid.Note("fresh_processes_started_for_first_use", 6)
	}
	if err != nil && strings.HasPrefix(err.Error(), "INFRA:") {
		panic(err.Error())
	}
	evid.Case(true, c.Summary(), "first-queries-of-the-process")
	if err != nil {
		fix.Fail(t, prop, "first-use", c, c.Summary(), err)
	}
}

func TestQuick(t *testing.T) {
	runFirst(t, &FirstCase{Goroutines: 8})
	fix.Pinned(t, prop, replay)
	fix.Check(t, "history", 150, func(rt *rapid.T) { run(rt, drawCase(rt, 15)) })
	runCancel(t, &CancelCase{Opts: "preload=true", TimeoutMS: 20, Rows: 100000})
	failedUseFlood(t, 1500)
	fix.Check(t, "late-file", 24, func(rt *rapid.T) { run(rt, drawLateFile(rt)) })
	fix.Check(t, "reincarnation", 40, func(rt *rapid.T) { run(rt, drawReincarnation(rt)) })
	fix.Check(t, "churn", 30, func(rt *rapid.T) { runChurn(rt, drawChurn(rt)) })
}

func TestThorough(t *testing.T) {
	runFirst(t, &FirstCase{Goroutines: 4 + 2*(func() int { s, _ := evid.Shard(); return s }())})
	if shard, _ := evid.Shard(); shard == 0 {
		fix.Pinned(t, prop, replay)
	}
	fix.Check(t, "history", 1500, func(rt *rapid.T) { run(rt, drawCase(rt, 40)) })
	if shard, _ := evid.Shard(); shard < 4 {
		runCancel(t, &CancelCase{Opts: optStrings[shard], TimeoutMS: 5 + 10*shard, Rows: 100000})
	}
	fix.Check(t, "late-file", 200, func(rt *rapid.T) { run(rt, drawLateFile(rt)) })
	fix.Check(t, "reincarnation", 300, func(rt *rapid.T) { run(rt, drawReincarnation(rt)) })
	fix.Check(t, "churn", 120, func(rt *rapid.T) { runChurn(rt, drawChurn(rt)) })
}

func TestReplay(t *testing.T) {
	cf := fix.ReplayFile(t)
	if err := replay(cf); err != nil {
		if strings.Contains(err.Error(), "does not complete") {
			fmt.Printf("HANG: %v\n", err)
			os.Exit(3)
		}
		t.Fatalf("replay of %s/%s fails: %v", cf.Property, cf.Sub, err)
	}
}
