// C11 — placeholder binding is exact and prepared statements are reusable.
package c11

import (
	"database/sql"
	"fmt"
	"math"
	"os"
	"sort"
	"strings"
	"testing"

	_ "github.com/akrennmair/updog/driver"
	"github.com/akrennmair/updog/internal/queryparser"
	pb "github.com/akrennmair/updog/proto/updog/v1"
	"github.com/akrennmair/updog/verifharness/evid"
	"github.com/akrennmair/updog/verifharness/fix"
	"github.com/akrennmair/updog/verifharness/gen"
	"github.com/akrennmair/updog/verifharness/model"
	"github.com/akrennmair/updog/verifharness/qref"
	"google.golang.org/protobuf/proto"
	"pgregory.net/rapid"
)

const prop = "C11"

func TestMain(m *testing.M) { fix.Main(m) }

type Arg struct {
	IsInt bool
	I     int64
	S     string
	Ptr   bool // passed as *string / *int64
}

func (a Arg) text() string {
	if a.IsInt {
		return fmt.Sprint(a.I)
	}
	return a.S
}

// any is the Go value handed to database/sql: strings and integers of every
// width, also behind a pointer (database/sql's documented conversions turn all
// of them into the same string / int64 on the Prepare and on the direct path).
func (a Arg) any() any {
	if a.IsInt {
		var v any = a.I
		switch m := ((a.I % 7) + 7) % 7; {
		case m == 0:
			v = int(a.I)
		case m == 1 && a.I >= math.MinInt32 && a.I <= math.MaxInt32:
			v = int32(a.I)
		case m == 2 && a.I >= 0 && a.I <= math.MaxUint16:
			v = uint16(a.I)
		case m == 3 && a.I >= math.MinInt8 && a.I <= math.MaxInt8:
			v = int8(a.I)
		case m == 4 && a.I >= 0:
			v = uint64(a.I)
		}
		if a.Ptr {
			i := a.I
			return &i
		}
		return v
	}
	if a.Ptr {
		s := a.S
		return &s
	}
	return a.S
}

type Case struct {
	Data    gen.DataSpec
	Tree    qref.T
	GroupBy []string
	Execs   [][]Arg
	Prepare bool // Prepare+Stmt.Query (else DB.Query with arguments)
	// Twin: a second statement with the same text is prepared before the
	// first execution and closed right after it; the first statement must not
	// notice.
	Twin bool
}

func (c *Case) Summary() string {
	var b strings.Builder
	fmt.Fprintf(&b, "%s query %s GROUP BY %q path=%s twin=%v execs:", c.Data.Summary(), c.Tree.String(), c.GroupBy, map[bool]string{true: "prepare", false: "direct"}[c.Prepare], c.Twin)
	for _, e := range c.Execs {
		b.WriteString(" (")
		for i, a := range e {
			if i > 0 {
				b.WriteString(",")
			}
			if a.IsInt {
				fmt.Fprintf(&b, "%d", a.I)
			} else {
				fmt.Fprintf(&b, "%+q", a.S)
			}
		}
		b.WriteString(")")
	}
	return b.String()
}

// libOracle: ReplacePlaceholders against the reference substitution, template untouched.
func libOracle(c *Case) error {
	q := &pb.Query{Expr: c.Tree.PB(), GroupBy: append([]string(nil), c.GroupBy...), Id: 7}
	before, _ := proto.MarshalOptions{Deterministic: true}.Marshal(q)
	for k, e := range c.Execs {
		args := make([]string, len(e))
		for i, a := range e {
			args[i] = a.text()
		}
		want, ok := c.Tree.Bind(args)
		if !ok {
			continue // too few arguments: decided at the driver level
		}
		var got *pb.Query
		if err := fix.Safe(func() error { got = queryparser.ReplacePlaceholders(q, args); return nil }); err != nil {
			return fmt.Errorf("execution %d: ReplacePlaceholders: %v", k, err)
		}
		wq := &pb.Query{Expr: want.PB(), GroupBy: append([]string(nil), c.GroupBy...), Id: 7}
		if !proto.Equal(got, wq) {
			return fmt.Errorf("execution %d: ReplacePlaceholders(%q) = %s, want %s", k, args, qref.QueryString(got), qref.QueryString(wq))
		}
		after, _ := proto.MarshalOptions{Deterministic: true}.Marshal(q)
		if string(before) != string(after) {
			return fmt.Errorf("execution %d: binding modified the parsed query itself: now %s", k, qref.QueryString(q))
		}
	}
	return nil
}

func driverOracle(c *Case) (tooFew int, err error) {
	rows := c.Data.Rows()
	d := model.NewData(rows)
	dir := fix.CaseDir()
	defer os.RemoveAll(dir)
	path, _, err := fix.Build(dir, rows, fix.WMemFile)
	if err != nil {
		return 0, fmt.Errorf("INFRA: %v", err)
	}
	db, err := sql.Open("updog", "file:"+path)
	if err != nil {
		return 0, fmt.Errorf("sql.Open: %v", err)
	}
	defer db.Close()
	db.SetMaxOpenConns(1)
	text := queryparser.QueryToString(&pb.Query{Expr: c.Tree.PB(), GroupBy: c.GroupBy})
	var stmt *sql.Stmt
	if c.Prepare {
		if err := fix.Safe(func() error { var e error; stmt, e = db.Prepare(text); return e }); err != nil {
			return 0, fmt.Errorf("Prepare(%+q): %v", text, err)
		}
		defer stmt.Close()
	}
	var twin *sql.Stmt
	if c.Prepare && c.Twin {
		if err := fix.Safe(func() error { var e error; twin, e = db.Prepare(text); return e }); err != nil {
			return 0, fmt.Errorf("second Prepare(%+q): %v", text, err)
		}
		defer func() {
			if twin != nil {
				twin.Close()
			}
		}()
	}
	need := int(c.Tree.MaxPH())
	for k, e := range c.Execs {
		if k == 1 && twin != nil {
			twin.Close()
			twin = nil
		}
		args := make([]any, len(e))
		texts := make([]string, len(e))
		for i, a := range e {
			args[i], texts[i] = a.any(), a.text()
		}
		var got *fix.SQLRows
		qerr := fix.Safe(func() error {
			var r *sql.Rows
			var e error
			if c.Prepare {
				r, e = stmt.Query(args...)
			} else {
				r, e = db.Query(text, args...)
			}
			if e != nil {
				return e
			}
			got, e = fix.ScanAll(r)
			return e
		})
		if fix.IsPanic(qerr) {
			return tooFew, fmt.Errorf("execution %d of %+q with %d arguments (needs %d): %v", k, text, len(e), need, qerr)
		}
		if len(e) < need {
			tooFew++
			if qerr == nil {
				return tooFew, fmt.Errorf("execution %d of %+q with %d arguments (needs %d) returned rows instead of an error", k, text, len(e), need)
			}
			continue
		}
		if len(e) > need && qerr != nil {
			continue // more arguments than needed: either outcome is acceptable
		}
		bound, _ := c.Tree.Bind(texts)
		be := bound.Model()
		if d.Rejects(be, c.GroupBy) {
			if qerr == nil {
				return tooFew, fmt.Errorf("execution %d: query on an unknown column returned rows", k)
			}
			continue
		}
		if qerr != nil {
			return tooFew, fmt.Errorf("execution %d of %+q args %q: unexpected error %v", k, text, texts, qerr)
		}
		want := d.Query(be, c.GroupBy)
		if err := fix.CheckRows(got, c.GroupBy, want); err != nil {
			return tooFew, fmt.Errorf("execution %d of %+q args %q: %v", k, text, texts, err)
		}
		// the one-shot query with literal values must return the same rows
		lit := queryparser.QueryToString(&pb.Query{Expr: bound.PB(), GroupBy: c.GroupBy})
		var one *fix.SQLRows
		oerr := fix.Safe(func() error {
			r, e := db.Query(lit)
			if e != nil {
				return e
			}
			one, e = fix.ScanAll(r)
			return e
		})
		if oerr != nil {
			return tooFew, fmt.Errorf("execution %d: one-shot literal query %+q failed: %v", k, lit, oerr)
		}
		if fmt.Sprint(one.Rows) != fmt.Sprint(got.Rows) || fmt.Sprint(one.Cols) != fmt.Sprint(got.Cols) {
			return tooFew, fmt.Errorf("execution %d: bound query returned %v, one-shot literal query %+q returns %v", k, got.Rows, lit, one.Rows)
		}
	}
	return tooFew, nil
}

// overlapOracle: one statement prepared on a fixed connection (Tx.Prepare) is
// executed twice BEFORE the first result set is read; each result set must
// still hold its own execution's rows.
func overlapOracle(c *Case) error {
	need := int(c.Tree.MaxPH())
	var lists [][]Arg
	for _, e := range c.Execs {
		if len(e) == need {
			lists = append(lists, e)
		}
	}
	if len(lists) < 2 {
		return nil
	}
	rows := c.Data.Rows()
	d := model.NewData(rows)
	dir := fix.CaseDir()
	defer os.RemoveAll(dir)
	path, _, err := fix.Build(dir, rows, fix.WMemFile)
	if err != nil {
		return fmt.Errorf("INFRA: %v", err)
	}
	db, err := sql.Open("updog", "file:"+path)
	if err != nil {
		return err
	}
	defer db.Close()
	text := queryparser.QueryToString(&pb.Query{Expr: c.Tree.PB(), GroupBy: c.GroupBy})
	return fix.Safe(func() error {
		tx, err := db.Begin()
		if err != nil {
			return err
		}
		defer tx.Rollback()
		// a second transaction on the same database while the first is open
		tx2, err := db.Begin()
		if err != nil {
			return fmt.Errorf("a second transaction on the same database, begun while the first one is open: %v", err)
		}
		defer tx2.Rollback()
		st2, err := tx2.Prepare(text)
		if err != nil {
			return fmt.Errorf("Prepare(%+q) in a second transaction begun while the first one is open: %v", text, err)
		}
		defer st2.Close()
		st, err := tx.Prepare(text)
		if err != nil {
			return fmt.Errorf("Tx.Prepare(%+q): %v", text, err)
		}
		defer st.Close()
		var open []*sql.Rows
		var wants []*model.Result
		defer func() {
			for _, r := range open {
				r.Close() // idempotent; an unread result set must not outlive the transaction
			}
		}()
		for _, e := range lists[:2] {
			args := make([]any, len(e))
			texts := make([]string, len(e))
			for i, a := range e {
				args[i], texts[i] = a.any(), a.text()
			}
			bound, _ := c.Tree.Bind(texts)
			be := bound.Model()
			r, qerr := st.Query(args...)
			if d.Rejects(be, c.GroupBy) {
				if qerr == nil {
					r.Close()
					return fmt.Errorf("query on an unknown column returned rows")
				}
				return nil
			}
			if qerr != nil {
				return fmt.Errorf("overlapping execution of %+q args %q: %v", text, texts, qerr)
			}
			w := d.Query(be, c.GroupBy)
			open, wants = append(open, r), append(wants, &w)
		}
		// a third execution, of the statement prepared in the other transaction,
		// while both result sets of the first are still unread
		if len(open) == 2 {
			e := lists[0]
			args := make([]any, len(e))
			texts := make([]string, len(e))
			for i, a := range e {
				args[i], texts[i] = a.any(), a.text()
			}
			bound, _ := c.Tree.Bind(texts)
			be := bound.Model()
			r, qerr := st2.Query(args...)
			if qerr != nil {
				return fmt.Errorf("execution of %+q args %q in a second transaction while the first has unread result sets: %v", text, texts, qerr)
			}
			w := d.Query(be, c.GroupBy)
			open, wants = append(open, r), append(wants, &w)
		}
		for i, r := range open {
			got, err := fix.ScanAll(r)
			if err != nil {
				return err
			}
			if err := fix.CheckRows(got, c.GroupBy, *wants[i]); err != nil {
				return fmt.Errorf("statement %+q executed twice before reading: result set %d (read after both executions) is wrong: %v", text, i, err)
			}
		}
		return nil
	})
}

func oracle(c *Case) (int, error) {
	if err := libOracle(c); err != nil {
		return 0, err
	}
	n, err := driverOracle(c)
	if err != nil {
		return n, err
	}
	if c.Prepare {
		if err := overlapOracle(c); err != nil {
			return n, err
		}
	}
	return n, nil
}

func run(t interface{ Fatalf(string, ...any) }, c *Case) {
	defer fix.Track(prop, "bind", c, c.Summary())()
	tooFew, err := oracle(c)
	if err != nil && strings.HasPrefix(err.Error(), "INFRA:") {
		panic(err.Error())
	}
	cl := []string{map[bool]string{true: "path:prepare", false: "path:direct"}[c.Prepare]}
	hasInt := false
	for _, e := range c.Execs {
		for _, a := range e {
			if a.IsInt {
				hasInt = true
			}
		}
		need := int(c.Tree.MaxPH())
		switch {
		case len(e) < need:
			cl = append(cl, "args:too-few")
		case len(e) > need:
			cl = append(cl, "args:too-many")
		default:
			cl = append(cl, "args:exact")
		}
	}
	if hasInt {
		cl = append(cl, "int-args")
	}
	nt := c.Tree.MaxPH() >= 1 && (len(c.Execs) >= 2 || tooFew > 0)
	evid.Case(nt, c.Summary(), dedup(cl)...)
	if err != nil {
		fix.Fail(t, prop, "bind", c, c.Summary(), err)
	}
}

func dedup(s []string) []string {
	m := map[string]bool{}
	var out []string
	for _, x := range s {
		if !m[x] {
			m[x] = true
			out = append(out, x)
		}
	}
	return out
}

// placeholderise replaces some leaf values by placeholders; phCols records
// the column each placeholder number is compared with (for argument choice).
func placeholderise(t *rapid.T, e model.Expr, phCols map[int32][]string, base int) qref.T {
	out := qref.T{Op: e.Op, Col: e.Col, Val: e.Val}
	if e.Op == model.OpEq {
		if rapid.IntRange(0, 9).Draw(t, "ph?") < 6 {
			n := int32(base + rapid.IntRange(1, 5).Draw(t, "phn"))
			out.PH, out.Val = n, ""
			phCols[n] = append(phCols[n], e.Col)
		}
		return out
	}
	for _, s := range e.Subs {
		out.Subs = append(out.Subs, placeholderise(t, s, phCols, base))
	}
	return out
}

func drawCase(t *rapid.T) *Case {
	c := &Case{Prepare: rapid.Bool().Draw(t, "prepare")}
	c.Data = *gen.Explicit(t, gen.DataOpts{MaxRows: 25, IdentCols: true})
	d := model.NewData(c.Data.Rows())
	pool := gen.NewLeafPool(d)
	phCols := map[int32][]string{}
	// placeholder numbers are usually 1..5; sometimes they start higher (a few
	// more arguments than fingers, or beyond 64 / 256 / 1024 positions), the
	// positions below being gaps no placeholder refers to
	base := rapid.SampledFrom([]int{0, 0, 0, 0, 0, 0, 0, 0, 0, 0, 2, 4, 7, 28, 60, 62, 63, 124, 252, 1021}).Draw(t, "phbase")
	c.Tree = placeholderise(t, pool.Expr(t, gen.ExprOpts{MaxDepth: 4, MaxArity: 3}), phCols, base)
	c.Twin = c.Prepare && rapid.IntRange(0, 4).Draw(t, "twin") == 0
	c.GroupBy = pool.GroupBy(t, 3, 0)
	need := int(c.Tree.MaxPH())
	nexec := rapid.IntRange(1, 6).Draw(t, "nexec")
	for k := 0; k < nexec; k++ {
		n := need
		switch rapid.IntRange(0, 9).Draw(t, "arity") {
		case 0:
			n = need - 1
		case 1:
			n = need - 2
		case 2:
			n = need + 1
		case 3:
			n = need + 2
		}
		if n < 0 {
			n = 0
		}
		var args []Arg
		if prev := len(c.Execs) - 1; prev >= 0 && len(c.Execs[prev]) == n && rapid.IntRange(0, 9).Draw(t, "identical") == 0 {
			// the very same argument list again: the second execution with
			// identical arguments must answer like the first
			c.Execs = append(c.Execs, append([]Arg(nil), c.Execs[prev]...))
			continue
		}
		if prev := len(c.Execs) - 1; prev >= 0 && len(c.Execs[prev]) == n && len(phCols) > 0 && rapid.IntRange(0, 9).Draw(t, "neighbour") < 4 {
			// the previous argument list with exactly one referenced position
			// changed (usually the highest one)
			args = append(args, c.Execs[prev]...)
			var refs []int
			for ph := range phCols {
				if int(ph) <= n {
					refs = append(refs, int(ph))
				}
			}
			sort.Ints(refs)
			if len(refs) > 0 {
				pos := refs[len(refs)-1]
				if rapid.IntRange(0, 2).Draw(t, "whichref") == 0 {
					pos = refs[rapid.IntRange(0, len(refs)-1).Draw(t, "refi")]
				}
				args[pos-1] = drawArg(t, d, phCols[int32(pos)])
			}
			c.Execs = append(c.Execs, args)
			continue
		}
		for i := 1; i <= n; i++ {
			if _, referenced := phCols[int32(i)]; !referenced && i <= base {
				args = append(args, Arg{S: "unreferenced"})
				continue
			}
			args = append(args, drawArg(t, d, phCols[int32(i)]))
		}
		c.Execs = append(c.Execs, args)
	}
	return c
}

func drawArg(t *rapid.T, d *model.Data, cols []string) Arg {
	a := drawArg1(t, d, cols)
	a.Ptr = rapid.IntRange(0, 5).Draw(t, "argptr") == 0
	return a
}

func drawArg1(t *rapid.T, d *model.Data, cols []string) Arg {
	switch rapid.IntRange(0, 9).Draw(t, "argkind") {
	case 0, 1:
		return Arg{IsInt: true, I: rapid.OneOf(rapid.Int64Range(-3, 12), rapid.Int64Range(-3, 12),
			rapid.SampledFrom([]int64{math.MinInt64, math.MaxInt64, 1 << 31, 1<<31 - 1, -(1 << 31) - 1, 1 << 32, 1e18, -1e15})).Draw(t, "int")}
	case 2, 3:
		return Arg{S: gen.Value().Draw(t, "argval")}
	}
	// an existing value of a column this placeholder is compared with
	if len(cols) == 0 || !d.HasColumn(cols[0]) {
		return Arg{S: gen.Value().Draw(t, "argval2")}
	}
	vals := d.Values(cols[rapid.IntRange(0, len(cols)-1).Draw(t, "argcol")])
	return Arg{S: vals[rapid.IntRange(0, len(vals)-1).Draw(t, "argvi")]}
}

// drawCollisionCase builds a scenario around argument lists that become equal
// when joined naively: (p+s+q, r) and (p, q+s+r) for a separator s.  The data
// holds both combinations with different multiplicities, so that answering
// one execution with the other's bound query is visible in the rows.
func drawCollisionCase(t *rapid.T) *Case {
	c := &Case{Prepare: rapid.IntRange(0, 3).Draw(t, "prepare") > 0}
	sep := rapid.SampledFrom([]string{" ", "", ",", ", ", "|", "\x00", "\n", "] [", "\" \""}).Draw(t, "sep")
	word := rapid.SampledFrom([]string{"x", "y", "a", "b1", "é", ""})
	pp, q, r := word.Draw(t, "p"), word.Draw(t, "q"), word.Draw(t, "r")
	a1, a2 := pp+sep+q, r
	b1, b2 := pp, q+sep+r
	var rows []model.Row
	n1 := rapid.IntRange(1, 3).Draw(t, "n1")
	n2 := n1 + rapid.IntRange(1, 3).Draw(t, "n2")
	for i := 0; i < n1; i++ {
		rows = append(rows, model.Row{"a": a1, "b": a2, "c": "k"})
	}
	for i := 0; i < n2; i++ {
		rows = append(rows, model.Row{"a": b1, "b": b2, "c": "m"})
	}
	rows = append(rows, model.Row{"a": a1, "b": b2}, model.Row{"a": b1}, model.Row{})
	c.Data = gen.DataSpec{Explicit: rows}
	leafA, leafB := qref.T{Op: model.OpEq, Col: "a", PH: 1}, qref.T{Op: model.OpEq, Col: "b", PH: 2}
	switch rapid.IntRange(0, 3).Draw(t, "shape") {
	case 0:
		c.Tree = qref.T{Op: model.OpAnd, Subs: []qref.T{leafA, leafB}}
	case 1:
		c.Tree = qref.T{Op: model.OpOr, Subs: []qref.T{leafB, qref.T{Op: model.OpNot, Subs: []qref.T{leafA}}}}
	case 2:
		c.Tree = qref.T{Op: model.OpAnd, Subs: []qref.T{leafB, leafA, qref.T{Op: model.OpNot, Subs: []qref.T{{Op: model.OpEq, Col: "c", Val: "zz"}}}}}
	default:
		c.Tree = qref.T{Op: model.OpNot, Subs: []qref.T{{Op: model.OpAnd, Subs: []qref.T{leafA, leafB}}}}
	}
	if rapid.Bool().Draw(t, "gb") {
		c.GroupBy = []string{"c"}
	}
	listA := []Arg{{S: a1}, {S: a2}}
	listB := []Arg{{S: b1}, {S: b2}}
	order := rapid.Permutation([][]Arg{listA, listB, listA, listB}).Draw(t, "order")
	c.Execs = order[:rapid.IntRange(2, 4).Draw(t, "nexec")]
	return c
}

func replay(cf *evid.CaseFile) error {
	var c Case
	if err := evid.Decode(cf.Gob, &c); err != nil {
		return err
	}
	_, err := oracle(&c)
	return err
}

func TestQuick(t *testing.T) {
	fix.Pinned(t, prop, replay)
	fix.Check(t, "bind", 3000, func(rt *rapid.T) { run(rt, drawCase(rt)) })
	fix.Check(t, "collide", 600, func(rt *rapid.T) { run(rt, drawCollisionCase(rt)) })
}

func TestThorough(t *testing.T) {
	if shard, _ := evid.Shard(); shard == 0 {
		fix.Pinned(t, prop, replay)
	}
	fix.Check(t, "bind", 60000, func(rt *rapid.T) { run(rt, drawCase(rt)) })
	fix.Check(t, "collide", 10000, func(rt *rapid.T) { run(rt, drawCollisionCase(rt)) })
}

func TestReplay(t *testing.T) {
	cf := fix.ReplayFile(t)
	if err := replay(cf); err != nil {
		t.Fatalf("replay of %s/%s fails: %v", cf.Property, cf.Sub, err)
	}
}
