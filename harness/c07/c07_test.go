// C07 — LRU cache: correct lookups, byte bound, least-recently-used eviction.
package c07

import (
	"fmt"
	"sort"
	"strings"
	"testing"

	"github.com/RoaringBitmap/roaring"
	"github.com/akrennmair/updog"
	"github.com/akrennmair/updog/verifharness/evid"
	"github.com/akrennmair/updog/verifharness/fix"
	"pgregory.net/rapid"
)

const prop = "C07"

func TestMain(m *testing.M) { fix.Main(m) }

// Bitmap shapes.
const (
	ShEmpty    = iota
	ShArray    // ~100 B
	ShBitmap   // one bitmap container, ~8 KiB
	ShRuns     // run containers
	ShMulti    // several containers
	ShLarge    // ~64 KiB
	ShManyRuns // 40 run containers: serialised size much smaller than the in-memory size
	nShapes
)

type Op struct {
	Put   bool
	Key   uint64
	Shape int
	// Same: store the very same set of values as the bitmap most recently
	// stored under this key, in the other container layout (run-compressed <->
	// plain); without an earlier Put of the key it is an ordinary Put.
	Same bool
}

type Case struct {
	Cap uint64
	Ops []Op
	// NoCounter: bit set = that counter (1 hit, 2 miss, 4 get, 8 put) is not
	// configured; the configured ones must still count exactly their events.
	NoCounter uint8
	// Fast: residency after each step is probed on ONE replica for all keys
	// (a Get must not change residency, which is checked anyway) instead of one
	// replica per key; used for long histories over many keys.
	Fast bool
}

func (c *Case) Summary() string {
	var b strings.Builder
	fmt.Fprintf(&b, "cap=%d counters-off=%04b ops[%d]:", c.Cap, c.NoCounter, len(c.Ops))
	for i, o := range c.Ops {
		if i >= 40 {
			b.WriteString(" …")
			break
		}
		if o.Put && o.Same {
			fmt.Fprintf(&b, " Put(%d,same values other layout)", o.Key)
		} else if o.Put {
			fmt.Fprintf(&b, " Put(%d,%s)", o.Key, shapeName[o.Shape])
		} else {
			fmt.Fprintf(&b, " Get(%d)", o.Key)
		}
	}
	return b.String()
}

var shapeName = []string{"empty", "array", "bitmap", "runs", "multi", "large", "manyruns"}

var templates = func() []*roaring.Bitmap {
	t := make([]*roaring.Bitmap, nShapes)
	t[ShEmpty] = roaring.New()
	t[ShArray] = roaring.New()
	for i := uint32(0); i < 45; i++ {
		t[ShArray].Add(i * 7)
	}
	t[ShBitmap] = roaring.New()
	for i := uint32(0); i < 30000; i += 3 {
		t[ShBitmap].Add(i)
	}
	t[ShRuns] = roaring.New()
	t[ShRuns].AddRange(10, 50000)
	t[ShRuns].AddRange(70000, 200000)
	t[ShRuns].RunOptimize()
	t[ShMulti] = roaring.New()
	for i := uint32(0); i < 20; i++ {
		t[ShMulti].Add(i << 16)
		t[ShMulti].Add(i<<16 + 9)
	}
	t[ShLarge] = roaring.New()
	for c := uint32(0); c < 8; c++ {
		for i := uint32(0); i < 30000; i += 3 {
			t[ShLarge].Add(c<<16 + i)
		}
	}
	t[ShManyRuns] = roaring.New()
	t[ShManyRuns].AddRange(5, 40<<16)
	t[ShManyRuns].RunOptimize()
	return t
}()

// mk returns a bitmap of the given shape whose content is unique for serial.
func mk(shape int, serial int) *roaring.Bitmap {
	b := templates[shape].Clone()
	if shape != ShEmpty {
		// the marker lives in its own high container; empty bitmaps stay empty
		// (two empty bitmaps are interchangeable for every observer)
		b.Add(0xF0000000 + uint32(serial))
	}
	return b
}

const slack = 256 // "fits comfortably": per-entry allowance for bookkeeping overhead

// step outcome of running a prefix on a fresh cache
type counters struct{ hit, miss, get, put fix.Counter }

func newCache(capacity uint64, cn *counters) *updog.LRUCache { return newCacheMasked(capacity, cn, 0) }

func newCacheMasked(capacity uint64, cn *counters, off uint8) *updog.LRUCache {
	m := &updog.CacheMetrics{}
	if off&1 == 0 {
		m.CacheHit = &cn.hit
	}
	if off&2 == 0 {
		m.CacheMiss = &cn.miss
	}
	if off&4 == 0 {
		m.GetCall = &cn.get
	}
	if off&8 == 0 {
		m.PutCall = &cn.put
	}
	return updog.NewLRUCache(capacity, updog.WithCacheMetrics(m))
}

// relayout returns a bitmap holding the same values in the other layout.
func relayout(b *roaring.Bitmap) *roaring.Bitmap {
	if b.HasRunCompression() {
		out := roaring.New()
		out.AddMany(b.ToArray())
		return out
	}
	out := b.Clone()
	out.RunOptimize()
	return out
}

// apply runs ops[0:n] on a fresh cache; bitmaps are rebuilt from (shape,
// serial=index), so replicas hold equal content.
func apply(capacity uint64, ops []Op, bms []*roaring.Bitmap, n int) *updog.LRUCache {
	var cn counters
	c := newCache(capacity, &cn)
	for i := 0; i < n; i++ {
		if ops[i].Put {
			c.Put(ops[i].Key, bms[i])
		} else {
			c.Get(ops[i].Key)
		}
	}
	return c
}

type facts struct {
	evictions   int
	hitAfterEv  bool
	sizeChanged bool
	sameRelaid  bool // overwrite with equal values whose layout has another size
	hits        int
}

func oracle(c *Case) (facts, error) {
	var f facts
	err := fix.Safe(func() error {
		var e error
		f, e = oracle1(c)
		return e
	})
	return f, err
}

func oracle1(c *Case) (facts, error) {
	var f facts
	var cn counters
	cache := newCacheMasked(c.Cap, &cn, c.NoCounter)
	keys := []uint64{}
	seenKey := map[uint64]bool{}
	for _, o := range c.Ops {
		if !seenKey[o.Key] {
			seenKey[o.Key] = true
			keys = append(keys, o.Key)
		}
	}
	lastPut := map[uint64]int{}   // key -> index of the most recent Put
	lastUse := map[uint64]int{}   // key -> step of last use (Put or Get hit)
	resident := map[uint64]bool{} // residency after the previous step (from replica)
	// one bitmap per Put, built once; the caches only store references and the
	// harness never mutates them, so replicas can share them
	bms := make([]*roaring.Bitmap, len(c.Ops))
	prevPut := map[uint64]int{}
	for i, o := range c.Ops {
		if o.Put {
			if p, ok := prevPut[o.Key]; ok && o.Same {
				bms[i] = relayout(bms[p])
			} else {
				bms[i] = mk(o.Shape, i)
			}
			prevPut[o.Key] = i
		}
	}
	var wantGet, wantPut, wantHit, wantMiss int64
	everEvicted := false
	alwaysFitted := true
	for i, o := range c.Ops {
		if o.Put {
			bm := bms[i]
			if old, ok := lastPut[o.Key]; ok && resident[o.Key] && bms[old].GetSizeInBytes() != bm.GetSizeInBytes() {
				f.sizeChanged = true
				if o.Same {
					f.sameRelaid = true
				}
			}
			cache.Put(o.Key, bm)
			wantPut++
			lastPut[o.Key] = i
			lastUse[o.Key] = i
		} else {
			got, ok := cache.Get(o.Key)
			wantGet++
			if ok {
				wantHit++
				f.hits++
				if everEvicted {
					f.hitAfterEv = true
				}
				p, stored := lastPut[o.Key]
				if !stored {
					return f, fmt.Errorf("step %d Get(%d): hit on a key that was never stored", i, o.Key)
				}
				if got == nil || !got.Equals(bms[p]) {
					return f, fmt.Errorf("step %d Get(%d): hit does not return the bitmap most recently stored under that key (Put at step %d)", i, o.Key, p)
				}
				if !resident[o.Key] {
					return f, fmt.Errorf("step %d Get(%d): hit on the cache under test, but the same prefix on a replica cache reports the key absent (non-deterministic cache?)", i, o.Key)
				}
				lastUse[o.Key] = i
			} else {
				wantMiss++
				if got != nil {
					return f, fmt.Errorf("step %d Get(%d): miss with a non-nil bitmap", i, o.Key)
				}
				if resident[o.Key] {
					return f, fmt.Errorf("step %d Get(%d): miss, but a replica of the same prefix holds the key", i, o.Key)
				}
			}
		}
		// residency after this step, observed on a replica so that probing does
		// not perturb the recency order of the cache under test
		now := map[uint64]bool{}
		var total uint64
		var shared *updog.LRUCache
		if c.Fast {
			shared = apply(c.Cap, c.Ops, bms, i+1)
		}
		for _, k := range keys {
			rep := shared
			if rep == nil {
				rep = apply(c.Cap, c.Ops, bms, i+1)
			}
			got, ok := rep.Get(k)
			if !ok {
				continue
			}
			now[k] = true
			p, stored := lastPut[k]
			if !stored {
				return f, fmt.Errorf("after step %d: key %d retrievable but never stored", i, k)
			}
			if !got.Equals(bms[p]) {
				return f, fmt.Errorf("after step %d: key %d holds a bitmap other than the one most recently stored under it (Put at step %d)", i, k, p)
			}
			total += got.GetSizeInBytes()
		}
		if o.Put {
			if total > c.Cap {
				return f, fmt.Errorf("after step %d Put(%d,%s): retrievable bitmaps sum to %d bytes > capacity %d", i, o.Key, shapeName[o.Shape], total, c.Cap)
			}
			sz := bms[i].GetSizeInBytes()
			if sz+slack <= c.Cap && !now[o.Key] {
				return f, fmt.Errorf("after step %d Put(%d,%s): entry of %d bytes fits capacity %d but is not retrievable", i, o.Key, shapeName[o.Shape], sz, c.Cap)
			}
		} else {
			// a Get never changes residency
			for _, k := range keys {
				if now[k] != resident[k] {
					return f, fmt.Errorf("step %d Get(%d) changed residency of key %d (%v -> %v)", i, o.Key, k, resident[k], now[k])
				}
			}
		}
		// eviction order: nothing less recently used may survive while something
		// more recently used is gone
		for _, ke := range keys {
			was := resident[ke] || (o.Put && ke == o.Key)
			if !was || now[ke] {
				if !was && now[ke] && !(o.Put && ke == o.Key) {
					return f, fmt.Errorf("after step %d: key %d became retrievable without a Put", i, ke)
				}
				continue
			}
			// ke was evicted by this step
			f.evictions++
			everEvicted = true
			for _, kk := range keys {
				if now[kk] && lastUse[kk] < lastUse[ke] {
					return f, fmt.Errorf("after step %d: key %d (last used at step %d) was evicted while key %d (last used at step %d) is kept — not least-recently-used order", i, ke, lastUse[ke], kk, lastUse[kk])
				}
			}
		}
		// nothing is evicted while everything stored fits comfortably
		var need uint64
		for k, p := range lastPut {
			_ = k
			need += bms[p].GetSizeInBytes() + slack
		}
		if need > c.Cap {
			// from here on evictions may have happened legitimately; the clause
			// only speaks about histories in which everything always fitted
			alwaysFitted = false
		}
		if alwaysFitted {
			for k := range lastPut {
				if !now[k] {
					return f, fmt.Errorf("after step %d: key %d is gone although everything stored (%d bytes incl. %d B/entry allowance) fits capacity %d", i, k, need, slack, c.Cap)
				}
			}
		}
		resident = now
		eg, ep, eh, em := wantGet, wantPut, wantHit, wantMiss
		if c.NoCounter&1 != 0 {
			eh = 0
		}
		if c.NoCounter&2 != 0 {
			em = 0
		}
		if c.NoCounter&4 != 0 {
			eg = 0
		}
		if c.NoCounter&8 != 0 {
			ep = 0
		}
		if cn.get.N.Load() != eg || cn.put.N.Load() != ep || cn.hit.N.Load() != eh || cn.miss.N.Load() != em {
			return f, fmt.Errorf("after step %d: configured counters get/put/hit/miss = %d/%d/%d/%d, events were %d/%d/%d/%d (not configured: mask %04b, expected to stay 0)", i,
				cn.get.N.Load(), cn.put.N.Load(), cn.hit.N.Load(), cn.miss.N.Load(), wantGet, wantPut, wantHit, wantMiss, c.NoCounter)
		}
	}
	return f, nil
}

func run(t interface{ Fatalf(string, ...any) }, c *Case, sub string) {
	defer fix.Track(prop, sub, c, c.Summary())()
	f, err := oracle(c)
	nt := (f.evictions > 0 && f.hitAfterEv) || f.sizeChanged
	cl := []string{"cap:" + capClass(c.Cap)}
	if f.evictions > 0 {
		cl = append(cl, "had-eviction")
	}
	if f.sizeChanged {
		cl = append(cl, "overwrite-changed-size")
	}
	if f.sameRelaid {
		cl = append(cl, "overwrite-same-values-other-layout")
	}
	if c.NoCounter != 0 {
		cl = append(cl, "some-counters-not-configured")
	}
	if f.hits > 0 {
		cl = append(cl, "had-hit")
	}
	evid.Case(nt, c.Summary(), cl...)
	if err != nil {
		fix.Fail(t, prop, sub, c, c.Summary(), err)
	}
}

func capClass(n uint64) string {
	switch {
	case n == 0:
		return "0"
	case n < 300:
		return "<1 small entry"
	case n < 9000:
		return "few small"
	case n < 100000:
		return "some 8KiB"
	case n >= 1<<62:
		return "around 2^63 / max uint64"
	}
	return "ample"
}

// exhaustive enumerates all sequences of exactly length L over the alphabet
// {Put(k,s) | k in 1..3, s in {empty,array,bitmap}} ∪ {Get(k)} (12 symbols)
// for each capacity; sequence numbers are split over shards.
func exhaustive(t *testing.T, L int) {
	var alphabet []Op
	for k := uint64(1); k <= 3; k++ {
		for _, s := range []int{ShEmpty, ShArray, ShBitmap} {
			alphabet = append(alphabet, Op{Put: true, Key: k, Shape: s})
		}
		alphabet = append(alphabet, Op{Key: k})
	}
	caps := []uint64{0, 50, 330, 700, 9000, 17500, 1 << 20, 1 << 63, 1<<64 - 1}
	shard, nshards := evid.Shard()
	total := 1
	for i := 0; i < L; i++ {
		total *= len(alphabet)
	}
	for _, capacity := range caps {
		for n := shard; n < total; n += nshards {
			ops := make([]Op, L)
			x := n
			for i := 0; i < L; i++ {
				ops[i] = alphabet[x%len(alphabet)]
				x /= len(alphabet)
			}
			run(t, &Case{Cap: capacity, Ops: ops}, "exhaustive")
			if t.Failed() {
				return
			}
		}
	}
	evid.Exhaustive(fmt.Sprintf("all %d Put/Get sequences of length %d over 3 keys x 3 size classes, x %d capacities", total, L, len(caps)))
}

func drawCase(t *rapid.T) *Case {
	c := &Case{}
	c.Cap = rapid.SampledFrom([]uint64{0, 1, 100, 250, 330, 500, 1000, 4000, 9000, 17000, 40000, 70000, 200000, 1 << 22, 1<<63 - 1, 1 << 63, 1<<63 + 1, 1<<64 - 1}).Draw(t, "cap")
	if rapid.IntRange(0, 3).Draw(t, "capmode") == 0 {
		c.Cap = uint64(rapid.IntRange(0, 100000).Draw(t, "capn"))
	}
	if rapid.IntRange(0, 3).Draw(t, "counters") == 0 {
		c.NoCounter = uint8(rapid.IntRange(1, 15).Draw(t, "nocounter"))
	}
	nkeys := rapid.IntRange(1, 12).Draw(t, "nkeys")
	n := rapid.IntRange(1, 80).Draw(t, "nops")
	for i := 0; i < n; i++ {
		o := Op{Key: uint64(rapid.IntRange(1, nkeys).Draw(t, "key"))}
		switch rapid.IntRange(0, 9).Draw(t, "op") {
		case 0, 1, 2, 3:
			o.Put = true
			o.Shape = rapid.IntRange(0, nShapes-1).Draw(t, "shape")
		case 5:
			// overwrite a previously stored key with the same values in the
			// other layout (run-friendly shapes change their size a lot)
			if rapid.IntRange(0, 2).Draw(t, "same?") == 0 {
				for j := len(c.Ops) - 1; j >= 0; j-- {
					if c.Ops[j].Put && (c.Ops[j].Shape == ShRuns || c.Ops[j].Shape == ShManyRuns || rapid.IntRange(0, 3).Draw(t, "anyshape") == 0) {
						o = Op{Put: true, Key: c.Ops[j].Key, Shape: c.Ops[j].Shape, Same: true}
						break
					}
				}
			}
		case 4:
			// overwrite a previously stored key with a different shape
			o.Put = true
			o.Shape = rapid.IntRange(0, nShapes-1).Draw(t, "shape")
			for j := len(c.Ops) - 1; j >= 0; j-- {
				if c.Ops[j].Put {
					o.Key = c.Ops[j].Key
					if o.Shape == c.Ops[j].Shape {
						o.Shape = (o.Shape + 1 + rapid.IntRange(0, nShapes-2).Draw(t, "shift")) % nShapes
					}
					break
				}
			}
		}
		c.Ops = append(c.Ops, o)
	}
	return c
}

// drawMarathon: long histories over hundreds of keys with mostly small
// entries, so that the cache holds many entries at once and its internal
// tables grow and turn over many times.
func drawMarathon(t *rapid.T, maxOps int) *Case {
	c := &Case{Fast: true}
	c.Cap = rapid.SampledFrom([]uint64{3000, 40000, 200000, 1 << 22, 1 << 63}).Draw(t, "cap")
	nkeys := rapid.IntRange(100, 1200).Draw(t, "nkeys")
	n := rapid.IntRange(maxOps/3, maxOps).Draw(t, "nops")
	base := rapid.SampledFrom([]uint64{1, 1 << 32, 1<<64 - 2000}).Draw(t, "keybase")
	for i := 0; i < n; i++ {
		o := Op{Key: base + uint64(rapid.IntRange(0, nkeys-1).Draw(t, "key"))}
		switch k := rapid.IntRange(0, 19).Draw(t, "op"); {
		case k < 11:
			o.Put = true
			o.Shape = rapid.SampledFrom([]int{ShEmpty, ShArray, ShArray, ShArray, ShArray, ShMulti}).Draw(t, "shape")
		case k == 11:
			o.Put = true
			o.Shape = ShBitmap
		}
		c.Ops = append(c.Ops, o)
	}
	// one or two entries far bigger than all the small ones together may push
	// out more than a thousand entries in a single Put
	for i, nbig := 0, rapid.IntRange(0, 2).Draw(t, "nbig"); i < nbig; i++ {
		at := rapid.IntRange(len(c.Ops)/2, len(c.Ops)-1).Draw(t, "bigat")
		c.Ops[at] = Op{Put: true, Key: base + uint64(rapid.IntRange(0, nkeys-1).Draw(t, "bigkey")), Shape: rapid.SampledFrom([]int{ShLarge, ShManyRuns, ShRuns}).Draw(t, "bigshape")}
	}
	return c
}

// ---------------------------------------------------------------- turnover: tens of thousands of evictions on one cache

// TurnCase: a small cache is overrun by N distinct keys, one Put each (plus a
// Get of a recent key now and then).  The oracle is cheap on purpose: at
// check points and at the end every key ever stored is looked up - what is
// retrievable must be the most recently used keys, a suffix of the use order,
// within the byte bound, and with the right content.
type TurnCase struct {
	Cap   uint64
	N     int
	Shape int
	Every int // a Get of the key stored Every/2 Puts ago, every Every Puts (0 = never)
	// Big > 0: at the end ONE bitmap of Big full 8 KiB containers is stored (an
	// avalanche: a single Put that has to push out very many entries)
	Big int
}

func (c *TurnCase) Summary() string {
	return fmt.Sprintf("turnover: cap=%d, %d distinct keys stored once each (%s), Get of a recent key every %d Puts, final Put of %d x 8 KiB", c.Cap, c.N, shapeName[c.Shape], c.Every, c.Big)
}

func turnOracle(c *TurnCase) (evictions int, err error) {
	err = fix.Safe(func() error {
		var cn counters
		cache := newCache(c.Cap, &cn)
		lastUse := make([]int, c.N) // key index -> step of last use
		clock := 0
		check := func(upto int, label string) error {
			// probing changes recency, so it is done on keys in DEcreasing
			// recency... simpler: probe in increasing recency order, which keeps
			// the relative order of everything that is a hit
			order := make([]int, upto)
			for i := range order {
				order[i] = i
			}
			sort.Slice(order, func(a, b int) bool { return lastUse[order[a]] < lastUse[order[b]] })
			var total uint64
			firstHit := -1
			for pos, ki := range order {
				got, ok := cache.Get(uint64(1000 + ki))
				if !ok {
					if firstHit >= 0 {
						return fmt.Errorf("%s: key #%d (last used at step %d) is gone while key #%d, used earlier (step %d), is still retrievable - not least-recently-used order after %d evictions", label, ki, lastUse[ki], order[firstHit], lastUse[order[firstHit]], evictions)
					}
					continue
				}
				if firstHit < 0 {
					firstHit = pos
				}
				if !got.Equals(mk(c.Shape, ki)) {
					return fmt.Errorf("%s: key #%d returns a bitmap other than the one stored under it", label, ki)
				}
				total += got.GetSizeInBytes()
				clock++
				lastUse[ki] = clock
			}
			if total > c.Cap {
				return fmt.Errorf("%s: retrievable bitmaps sum to %d bytes > capacity %d", label, total, c.Cap)
			}
			if firstHit >= 0 {
				evictions = firstHit
			} else {
				evictions = upto
			}
			return nil
		}
		for i := 0; i < c.N; i++ {
			clock++
			cache.Put(uint64(1000+i), mk(c.Shape, i))
			lastUse[i] = clock
			if c.Every > 0 && i%c.Every == c.Every-1 {
				k := i - c.Every/2
				if _, ok := cache.Get(uint64(1000 + k)); ok {
					clock++
					lastUse[k] = clock
				}
			}
			if i == 65535 || i == 65536 || i == 65537 || i == c.N/2 {
				if err := check(i+1, fmt.Sprintf("after %d Puts", i+1)); err != nil {
					return err
				}
			}
		}
		if err := check(c.N, fmt.Sprintf("after all %d Puts", c.N)); err != nil {
			return err
		}
		if c.Big > 0 {
			big := roaring.New()
			for ch := uint32(0); ch < uint32(c.Big); ch++ {
				for i := uint32(0); i < 65536; i += 2 {
					big.Add(ch<<16 | i)
				}
			}
			cache.Put(7, big)
			var bigSize uint64
			got, ok := cache.Get(7)
			if ok {
				if !got.Equals(big) {
					return fmt.Errorf("the big entry returns another bitmap")
				}
				bigSize = got.GetSizeInBytes()
			} else if big.GetSizeInBytes()+slack <= c.Cap {
				return fmt.Errorf("the big entry (%d bytes) fits capacity %d but is not retrievable right after it was stored", big.GetSizeInBytes(), c.Cap)
			}
			before := evictions
			if err := check(c.N, fmt.Sprintf("after the final Put of %d bytes", big.GetSizeInBytes())); err != nil {
				return err
			}
			var small uint64
			for i := evictions; i < c.N; i++ {
				small += mk(c.Shape, i).GetSizeInBytes()
			}
			if bigSize+small > c.Cap {
				return fmt.Errorf("after the final Put of %d bytes (%d entries had to go, %d went): retrievable bitmaps sum to %d bytes > capacity %d", big.GetSizeInBytes(), c.N-before, evictions-before, bigSize+small, c.Cap)
			}
			return nil
		}
		sz := mk(c.Shape, 0).GetSizeInBytes()
		if sz+slack <= c.Cap {
			if _, ok := cache.Get(uint64(1000 + c.N - 1)); !ok {
				return fmt.Errorf("the entry stored last (%d bytes, capacity %d) is not retrievable", sz, c.Cap)
			}
		}
		return nil
	})
	return evictions, err
}

func runTurn(t interface{ Fatalf(string, ...any) }, c *TurnCase) {
	defer fix.Track(prop, "turnover", c, c.Summary())()
	ev, err := turnOracle(c)
	cl := []string{"turnover"}
	if ev > 65536 {
		cl = append(cl, "more-than-65536-evictions")
	}
	evid.Case(ev > 1000, c.Summary(), cl...)
	if err != nil {
		fix.Fail(t, prop, "turnover", c, c.Summary(), err)
	}
}

func drawTurn(t *rapid.T) *TurnCase {
	c := &TurnCase{N: rapid.SampledFrom([]int{3000, 66000, 70000, 131100}).Draw(t, "n"), Shape: rapid.SampledFrom([]int{ShEmpty, ShArray, ShArray, ShMulti}).Draw(t, "shape")}
	c.Cap = rapid.SampledFrom([]uint64{0, 300, 700, 4096, 70000}).Draw(t, "cap")
	c.Every = rapid.SampledFrom([]int{0, 0, 7, 1000}).Draw(t, "every")
	if rapid.Bool().Draw(t, "avalanche") {
		// everything fits until one entry of nearly the whole capacity arrives
		c.N = rapid.SampledFrom([]int{1500, 3000, 5000}).Draw(t, "an")
		c.Shape = ShArray
		c.Cap = uint64(c.N) * 300
		c.Every = 0
		c.Big = int(c.Cap/8300) - rapid.IntRange(0, 2).Draw(t, "bigless")
		if c.Big < 1 {
			c.Big = 1
		}
	}
	return c
}

// ---------------------------------------------------------------- caller edits a stored bitmap, which is then evicted

// MutCase: the caller changes a bitmap after it was stored (the cache holds a
// reference), other entries push it out, and from then on only untouched
// bitmaps are stored.  While an edited bitmap is retrievable the byte bound
// cannot be expected to hold; once none is, every clause holds again: the
// accounting must not keep a surplus or a deficit from the edited entry.
type MutCase struct {
	Cap    uint64
	First  int   // shape of the entry that is edited
	Edit   int   // 0 clear, 1 keep every 16th value, 2 double, 3 add 8 scattered chunks
	Pre    []int // shapes stored before it
	Pushes []int // shapes stored afterwards
}

func (c *MutCase) Summary() string {
	return fmt.Sprintf("edit-then-evict: cap=%d pre=%v Put(1,%s) caller-edit=%d pushes=%v", c.Cap, c.Pre, shapeName[c.First], c.Edit, c.Pushes)
}

func mutOracle(c *MutCase) (evicted bool, err error) {
	err = fix.Safe(func() error {
		cache := updog.NewLRUCache(c.Cap)
		stored := map[uint64]*roaring.Bitmap{}
		for i, sh := range c.Pre {
			b := mk(sh, 1000+i)
			cache.Put(uint64(100+i), b)
			stored[uint64(100+i)] = b
		}
		victim := mk(c.First, 1)
		cache.Put(1, victim)
		switch c.Edit {
		case 0:
			victim.Clear()
		case 1:
			for i, v := range victim.ToArray() {
				if i%16 != 0 {
					victim.Remove(v)
				}
			}
		case 2:
			for _, v := range victim.ToArray() {
				victim.Add(v ^ 0x00800001)
			}
		default:
			for ch := uint32(100); ch < 108; ch++ {
				for i := uint32(0); i < 9000; i += 2 {
					victim.Add(ch<<16 + i)
				}
			}
		}
		for i, sh := range c.Pushes {
			k := uint64(200 + i)
			b := mk(sh, 2000+i)
			cache.Put(k, b)
			stored[k] = b
			// what is retrievable now (the edited entry is looked at last, so
			// that probing does not keep it alive longer than the others)
			var total uint64
			order := make([]uint64, 0, len(stored))
			for kk := range stored {
				order = append(order, kk)
			}
			sort.Slice(order, func(a, b int) bool { return order[a] < order[b] })
			for _, kk := range order {
				want := stored[kk]
				if got, ok := cache.Get(kk); ok {
					if !got.Equals(want) {
						return fmt.Errorf("after push %d: key %d returns a bitmap other than the one stored under it", i, kk)
					}
					total += got.GetSizeInBytes()
				}
			}
			if _, ok := cache.Get(1); ok {
				continue // the edited bitmap is still in: no claim about bytes
			}
			evicted = true
			if total > c.Cap {
				return fmt.Errorf("after push %d (the edited entry is gone): untouched retrievable bitmaps sum to %d bytes > capacity %d", i, total, c.Cap)
			}
			if b.GetSizeInBytes()+slack <= c.Cap {
				if _, ok := cache.Get(k); !ok {
					return fmt.Errorf("after push %d (the edited entry is gone): entry of %d bytes fits capacity %d but is not retrievable right after it was stored", i, b.GetSizeInBytes(), c.Cap)
				}
			}
		}
		return nil
	})
	return evicted, err
}

func runMut(t interface{ Fatalf(string, ...any) }, c *MutCase) {
	defer fix.Track(prop, "edit", c, c.Summary())()
	ev, err := mutOracle(c)
	cl := []string{"edit:" + []string{"clear", "thin-out", "double", "new-chunks"}[c.Edit]}
	if ev {
		cl = append(cl, "edited-entry-evicted")
	}
	evid.Case(ev, c.Summary(), cl...)
	if err != nil {
		fix.Fail(t, prop, "edit", c, c.Summary(), err)
	}
}

func drawMut(t *rapid.T) *MutCase {
	c := &MutCase{Cap: rapid.SampledFrom([]uint64{9000, 20000, 20000, 40000, 70000, 300000}).Draw(t, "cap")}
	big := []int{ShBitmap, ShBitmap, ShLarge, ShRuns, ShManyRuns, ShMulti}
	anyShape := rapid.IntRange(0, nShapes-1)
	c.First = rapid.SampledFrom(big).Draw(t, "first")
	c.Edit = rapid.IntRange(0, 3).Draw(t, "edit")
	for i, n := 0, rapid.IntRange(0, 3).Draw(t, "npre"); i < n; i++ {
		c.Pre = append(c.Pre, anyShape.Draw(t, "pre"))
	}
	for i, n := 0, rapid.IntRange(2, 14).Draw(t, "npush"); i < n; i++ {
		if rapid.Bool().Draw(t, "bigpush") {
			c.Pushes = append(c.Pushes, ShBitmap)
		} else {
			c.Pushes = append(c.Pushes, anyShape.Draw(t, "push"))
		}
	}
	return c
}

// ---------------------------------------------------------------- same object stored again after it grew

// RePutCase: Put(k, bm); the caller adds values to bm; Put(k, bm) again with
// the very same object.  After that second Put returned the byte bound must
// hold for what is retrievable (the overwrite clause of the property), and the
// hit must return the object.
type RePutCase struct {
	Cap    uint64
	Others int // other small entries stored before
	Grow   int // values added before the second Put
	Chunks int // spread over this many 64K chunks
}

func (c *RePutCase) Summary() string {
	return fmt.Sprintf("re-put grown: cap=%d, %d other entries, Put(k,bm), bm grows by %d values over %d chunks, Put(k,bm) again (same object)", c.Cap, c.Others, c.Grow, c.Chunks)
}

func rePutOracle(c *RePutCase) error {
	return fix.Safe(func() error {
		cache := updog.NewLRUCache(c.Cap)
		for i := 0; i < c.Others; i++ {
			cache.Put(uint64(100+i), mk(ShArray, i))
		}
		bm := roaring.New()
		bm.Add(1)
		cache.Put(7, bm)
		for i := 0; i < c.Grow; i++ {
			bm.Add(uint32(i%c.Chunks)<<16 + uint32(i*3))
		}
		cache.Put(7, bm)
		var total uint64
		for k := uint64(0); k < uint64(100+c.Others); k++ {
			if k != 7 && k < 100 {
				continue
			}
			if got, ok := cache.Get(k); ok {
				total += got.GetSizeInBytes()
				if k == 7 && !got.Equals(bm) {
					return fmt.Errorf("hit for the re-stored key returns another bitmap")
				}
			}
		}
		if total > c.Cap {
			return fmt.Errorf("after storing the grown bitmap again under its key, retrievable bitmaps sum to %d bytes > capacity %d", total, c.Cap)
		}
		if bm.GetSizeInBytes()+slack <= c.Cap {
			if _, ok := cache.Get(7); !ok {
				return fmt.Errorf("the re-stored bitmap (%d bytes) fits capacity %d but is not retrievable", bm.GetSizeInBytes(), c.Cap)
			}
		}
		// recency: storing the same object again under its key counts as use.
		// fresh cache: key 7 first (oldest), then the others, then 7 again with the
		// SAME object; fillers follow until something is evicted - while any of
		// the older "others" is still there, 7 must be there too
		c2 := updog.NewLRUCache(c.Cap)
		same := mk(ShArray, 9999)
		c2.Put(7, same)
		for i := 0; i < c.Others; i++ {
			c2.Put(uint64(100+i), mk(ShArray, i))
		}
		c2.Put(7, same)
		if c.Others >= 4 && same.GetSizeInBytes()*uint64(c.Others+3)+uint64(c.Others+3)*slack <= c.Cap {
			// no probing inside a run (a hit is a use): the number of fillers
			// after which the OLDEST entry is evicted is found on fresh caches
			// (a run is a pure function of that number); in the run with exactly
			// that many fillers one or two of the oldest entries are gone, and
			// key 7, the most recently stored of all entries that are not
			// fillers, has to be there
			build := func(fillers int) *updog.LRUCache {
				c3 := updog.NewLRUCache(c.Cap)
				c3.Put(7, same)
				for i := 0; i < c.Others; i++ {
					c3.Put(uint64(100+i), mk(ShArray, i))
				}
				c3.Put(7, same)
				for i := 0; i < fillers; i++ {
					c3.Put(uint64(1<<40+i), mk(ShArray, 20000+i))
				}
				return c3
			}
			oldestGone := func(fillers int) bool { _, ok := build(fillers).Get(100); return !ok }
			lo, hi := 0, 4096
			if !oldestGone(0) && oldestGone(hi) {
				for hi-lo > 1 {
					if mid := (lo + hi) / 2; oldestGone(mid) {
						hi = mid
					} else {
						lo = mid
					}
				}
				if _, ok := build(hi).Get(7); !ok {
					return fmt.Errorf("key 7 was stored again (same object, same size) AFTER the %d other entries; %d fillers later the oldest of those entries is evicted for the first time, and key 7 is gone too although it was the most recently stored of the earlier entries: storing the same object under its key did not count as use", c.Others, hi)
				}
			}
		}
		if c.Others > 0 && same.GetSizeInBytes()*uint64(c.Others+3)+uint64(c.Others+3)*slack <= c.Cap {
			for i := 0; i < int(c.Cap/60)+50 && i < 20000; i++ {
				c2.Put(uint64(1<<40+i), mk(ShArray, 20000+i))
				if i%7 == 6 {
					// probing refreshes recency: the others are probed first and
					// key 7 last, so that 7 stays the most recently used of them
					anyOlder := false
					for j := 0; j < c.Others; j++ {
						if _, ok := c2.Get(uint64(100 + j)); ok {
							anyOlder = true
						}
					}
					_, has7 := c2.Get(7)
					if !has7 && anyOlder {
						return fmt.Errorf("key 7 was stored again (same object) AFTER the %d other entries, yet it was evicted while older entries survive: storing under an existing key did not count as use", c.Others)
					}
					if !has7 {
						break
					}
				}
			}
		}
		return nil
	})
}

func drawRePut(t *rapid.T) *RePutCase {
	return &RePutCase{
		Cap:    rapid.SampledFrom([]uint64{300, 1000, 4096, 9000, 20000, 100000}).Draw(t, "cap"),
		Others: rapid.IntRange(0, 30).Draw(t, "others"),
		Grow:   rapid.SampledFrom([]int{1, 50, 2000, 5000, 40000}).Draw(t, "grow"),
		Chunks: rapid.SampledFrom([]int{1, 2, 8}).Draw(t, "chunks"),
	}
}

func runRePut(t interface{ Fatalf(string, ...any) }, c *RePutCase) {
	defer fix.Track(prop, "reput", c, c.Summary())()
	evid.Case(true, c.Summary(), "re-put-grown")
	if err := rePutOracle(c); err != nil {
		fix.Fail(t, prop, "reput", c, c.Summary(), err)
	}
}

func replay(cf *evid.CaseFile) error {
	if cf.Sub == "turnover" {
		var c TurnCase
		if err := evid.Decode(cf.Gob, &c); err != nil {
			return err
		}
		_, err := turnOracle(&c)
		return err
	}
	if cf.Sub == "edit" {
		var c MutCase
		if err := evid.Decode(cf.Gob, &c); err != nil {
			return err
		}
		_, err := mutOracle(&c)
		return err
	}
	if cf.Sub == "reput" {
		var c RePutCase
		if err := evid.Decode(cf.Gob, &c); err != nil {
			return err
		}
		return rePutOracle(&c)
	}
	var c Case
	if err := evid.Decode(cf.Gob, &c); err != nil {
		return fmt.Errorf("undecodable case: %v", err)
	}
	_, err := oracle(&c)
	return err
}

func TestQuick(t *testing.T) {
	fix.Pinned(t, prop, replay)
	for L := 1; L <= 4; L++ {
		exhaustive(t, L)
	}
	fix.Check(t, "random", 3000, func(rt *rapid.T) { run(rt, drawCase(rt), "random") })
	fix.Check(t, "reput", 300, func(rt *rapid.T) { runRePut(rt, drawRePut(rt)) })
	fix.Check(t, "edit", 400, func(rt *rapid.T) { runMut(rt, drawMut(rt)) })
	fix.Check(t, "turnover", 10, func(rt *rapid.T) { runTurn(rt, drawTurn(rt)) })
	fix.Check(t, "marathon", 6, func(rt *rapid.T) { run(rt, drawMarathon(rt, 1200), "marathon") })
}

func TestThorough(t *testing.T) {
	if shard, _ := evid.Shard(); shard == 0 {
		fix.Pinned(t, prop, replay)
	}
	for L := 1; L <= 5; L++ {
		exhaustive(t, L)
	}
	fix.Check(t, "random", 100000, func(rt *rapid.T) { run(rt, drawCase(rt), "random") })
	fix.Check(t, "reput", 3000, func(rt *rapid.T) { runRePut(rt, drawRePut(rt)) })
	fix.Check(t, "edit", 6000, func(rt *rapid.T) { runMut(rt, drawMut(rt)) })
	fix.Check(t, "turnover", 12, func(rt *rapid.T) { runTurn(rt, drawTurn(rt)) })
	fix.Check(t, "marathon", 12, func(rt *rapid.T) { run(rt, drawMarathon(rt, 2500), "marathon") })
}

func TestReplay(t *testing.T) {
	cf := fix.ReplayFile(t)
	if err := replay(cf); err != nil {
		t.Fatalf("replay of %s/%s fails: %v", cf.Property, cf.Sub, err)
	}
}
