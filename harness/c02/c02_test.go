// C02 — group-by result is exactly SQL GROUP BY with COUNT(*) > 0, sorted.
package c02

import (
	"fmt"
	"os"
	"strings"
	"testing"

	"github.com/akrennmair/updog/verifharness/evid"
	"github.com/akrennmair/updog/verifharness/fix"
	"github.com/akrennmair/updog/verifharness/gen"
	"github.com/akrennmair/updog/verifharness/model"
	"pgregory.net/rapid"
)

const prop = "C02"

func TestMain(m *testing.M) { fix.Main(m) }

type Q struct {
	Expr    model.Expr
	GroupBy []string
}

type Case struct {
	Data    gen.DataSpec
	Queries []Q
}

func (c *Case) Summary() string {
	var b strings.Builder
	b.WriteString(c.Data.Summary())
	fmt.Fprintf(&b, " queries[%d]:", len(c.Queries))
	for i, q := range c.Queries {
		if i >= 8 {
			b.WriteString(" …")
			break
		}
		fmt.Fprintf(&b, " %s GROUP BY %+q;", q.Expr.String(), q.GroupBy)
	}
	return b.String()
}

var openCfgs = []fix.OpenCfg{{Preload: false, CacheCap: -1}, {Preload: true, CacheCap: -1}}

func oracle(c *Case) error {
	rows := c.Data.Rows()
	d := model.NewData(rows)
	dir := fix.CaseDir()
	defer os.RemoveAll(dir)
	for w := 0; w < fix.NWriters; w++ {
		path, _, err := fix.Build(dir, rows, w)
		if err != nil {
			return fmt.Errorf("writer %s: build failed: %v", fix.WriterName[w], err)
		}
		for _, oc := range openCfgs {
			idx, _, err := fix.Open(path, oc)
			if err != nil {
				return fmt.Errorf("writer %s open %s: %v", fix.WriterName[w], oc, err)
			}
			var qerr error
			for _, q := range c.Queries {
				if err := fix.CheckQuery(idx, d, q.Expr, q.GroupBy); err != nil {
					qerr = fmt.Errorf("writer %s open %s: query %s GROUP BY %+q: %v", fix.WriterName[w], oc, q.Expr.String(), q.GroupBy, err)
					break
				}
			}
			cerr := fix.Safe(idx.Close)
			if qerr != nil {
				return qerr
			}
			if cerr != nil {
				return fmt.Errorf("close: %v", cerr)
			}
		}
		os.Remove(path)
	}
	return nil
}

func classify(c *Case) (bool, []string) {
	d := model.NewData(c.Data.Rows())
	cl := []string{}
	if c.Data.Recipe != nil {
		cl = append(cl, "mode:recipe")
	} else {
		cl = append(cl, "mode:explicit")
	}
	nt := false
	ncols := len(d.Columns())
	missing := false
	for _, r := range d.Rows {
		if len(r) < ncols {
			missing = true
		}
	}
	if missing {
		cl = append(cl, "rows-lacking-columns")
	}
	seen := map[string]bool{}
	add := func(s string) {
		if !seen[s] {
			seen[s] = true
			cl = append(cl, s)
		}
	}
	for _, q := range c.Queries {
		add(fmt.Sprintf("gblen:%d", len(q.GroupBy)))
		rep := false
		m := map[string]bool{}
		for _, g := range q.GroupBy {
			if m[g] {
				rep = true
			}
			m[g] = true
		}
		if rep {
			add("repeated-column")
		}
		if len(q.GroupBy) >= 4 {
			add("gblen>=4")
		}
		if d.Rejects(q.Expr, q.GroupBy) {
			add("rejected")
			continue
		}
		r := d.Query(q.Expr, q.GroupBy)
		if len(q.GroupBy) > 0 && len(r.Groups) == 0 {
			add("zero-groups")
		}
		if len(r.Groups) >= 2 && len(q.GroupBy) >= 2 {
			nt = true
		}
		if len(r.Groups) >= 2 && len(q.GroupBy) >= 4 {
			add(">=2groups&gblen>=4")
		}
		if len(r.Groups) > 1000 {
			add("groups>1000")
		}
	}
	return nt, cl
}

func run(t interface{ Fatalf(string, ...any) }, c *Case) {
	defer fix.Track(prop, "groupby", c, c.Summary())()
	nt, cl := classify(c)
	evid.Case(nt, c.Summary(), cl...)
	if err := oracle(c); err != nil {
		fix.Fail(t, prop, "groupby", c, c.Summary(), err)
	}
}

func drawCase(t *rapid.T, o gen.DataOpts, nq int) *Case {
	ds := gen.Dataset(t, o)
	d := model.NewData(ds.Rows())
	pool := gen.NewLeafPool(d).AllowEmptyName()
	c := &Case{Data: *ds}
	k := rapid.IntRange(1, nq).Draw(t, "nq")
	for i := 0; i < k; i++ {
		eo := gen.UnknownSometimes(t)
		var e model.Expr
		if rapid.IntRange(0, 3).Draw(t, "taut") == 0 && len(pool.Cols) > 0 {
			// a tautology keeps all rows, so that groups are as many as the data allows
			e = model.Not(model.Eq(pool.Cols[0], "\x01never\x02"))
		} else if i > 0 && rapid.IntRange(0, 3).Draw(t, "confuse") == 0 {
			// a twin of an earlier expression (De Morgan, permuted siblings,
			// repeated values ...) under a group-by list
			var prev []model.Expr
			for _, pq := range c.Queries {
				prev = append(prev, pq.Expr)
			}
			e = pool.Confuse(t, prev, gen.ExprOpts{MaxDepth: 3})
		} else {
			e = pool.Expr(t, eo)
		}
		unk := 0
		if rapid.IntRange(0, 14).Draw(t, "gbunk?") == 0 {
			unk = 25
		}
		c.Queries = append(c.Queries, Q{Expr: e, GroupBy: pool.GroupBy(t, 6, unk)})
	}
	// forced shapes: one list of length >= 4 and one with a repeated column
	if len(pool.Cols) > 0 {
		taut := model.Not(model.Eq(pool.Cols[0], "\x01never\x02"))
		long := make([]string, rapid.IntRange(4, 6).Draw(t, "longlen"))
		for i := range long {
			long[i] = pool.Cols[rapid.IntRange(0, len(pool.Cols)-1).Draw(t, "longcol")]
		}
		c.Queries = append(c.Queries, Q{Expr: taut, GroupBy: long})
		// every column of the list doubled (and tripled): [a a b b], [a a a b b]
		if len(pool.Cols) > 1 && rapid.IntRange(0, 2).Draw(t, "doubled") == 0 {
			a, b := pool.Cols[0], pool.Cols[1]
			c.Queries = append(c.Queries, Q{Expr: taut, GroupBy: []string{a, a, b, b}}, Q{Expr: taut, GroupBy: []string{a, a, a, b, b}})
		}
		rc := pool.Cols[rapid.IntRange(0, len(pool.Cols)-1).Draw(t, "repcol")]
		c.Queries = append(c.Queries, Q{Expr: pool.Expr(t, gen.ExprOpts{}), GroupBy: []string{rc, pool.Cols[0], rc}})
		// a filter that restricts the grouped column itself to a list of values,
		// some of which no row has (whoever derives the groups from the filter
		// instead of the schema meets values that do not exist)
		if rapid.IntRange(0, 2).Draw(t, "valuelist") == 0 {
			gc := pool.Cols[rapid.IntRange(0, len(pool.Cols)-1).Draw(t, "vlcol")]
			vals := d.Values(gc)
			list := []model.Expr{model.Eq(gc, vals[rapid.IntRange(0, len(vals)-1).Draw(t, "vl1")]), model.Eq(gc, "no-such-value~"), model.Eq(gc, vals[rapid.IntRange(0, len(vals)-1).Draw(t, "vl2")])}
			if rapid.Bool().Draw(t, "vlabsentfirst") {
				list[0], list[1] = list[1], list[0]
			}
			e := model.Or(list...)
			if rapid.Bool().Draw(t, "vlnested") {
				e = model.And(e, taut)
			}
			c.Queries = append(c.Queries, Q{Expr: e, GroupBy: []string{gc}}, Q{Expr: model.Eq(gc, "no-such-value~"), GroupBy: []string{gc, pool.Cols[0]}})
		}
		// an unknown column listed AFTER the point where no group is left (the
		// expression matches nothing, or asks for an absent value of the first
		// listed column): the error is due all the same
		if rapid.IntRange(0, 3).Draw(t, "drygroups") == 0 {
			ec := pool.Cols[rapid.IntRange(0, len(pool.Cols)-1).Draw(t, "drycol")]
			unk := pool.Unknown[rapid.IntRange(0, len(pool.Unknown)-1).Draw(t, "dryunk")]
			none := model.Eq(ec, "no-such-value~")
			c.Queries = append(c.Queries, Q{Expr: none, GroupBy: []string{ec, unk}}, Q{Expr: model.And(none, taut), GroupBy: []string{pool.Cols[0], ec, unk, ec}}, Q{Expr: none, GroupBy: []string{unk}})
		}
		if u := ds.UniqueCol(); u != "" {
			best := pool.Cols[0]
			for _, pc := range pool.Cols {
				if len(d.Values(pc)) < len(d.Values(best)) {
					best = pc
				}
			}
			c.Queries = append(c.Queries, Q{Expr: taut, GroupBy: []string{u, best}})
		}
	}
	for i := range c.Queries {
		c.Queries[i].GroupBy = bound(d, len(d.Rows), c.Queries[i].GroupBy, 400000)
	}
	return c
}

func prelude(t *testing.T, sizes []int) {
	for _, n := range sizes {
		spec := gen.DataSpec{Recipe: &gen.Recipe{N: n, Cols: []gen.ColSpec{
			{Name: "a", Kind: gen.KMod, K: 3, Prefix: "v"},
			{Name: "b", Kind: gen.KDiv, K: 1000, Pres: gen.PModNot, P: 3},
			{Name: "c", Kind: gen.KSparse, K: 7, R: 5, Pres: gen.PNotLast, P: 2},
			{Name: "d", Kind: gen.KMod, K: 2, Prefix: "\xff"},
			{Name: "e", Kind: gen.KMod, K: 5},
		}}}
		taut := model.Not(model.Eq("a", "none"))
		c := &Case{Data: spec, Queries: []Q{
			{taut, []string{"a"}}, {taut, []string{"a", "b"}}, {taut, []string{"a", "c", "d", "e"}}, {taut, []string{"e", "d", "c", "b", "a", "e"}},
			{model.Eq("a", "v1"), []string{"d", "d"}}, {model.And(model.Eq("a", "v1"), model.Eq("a", "v2")), []string{"a", "b"}}, {taut, nil},
			{taut, []string{"a", "nope"}},
		}}
		run(t, c)
	}
}

// bigGroups: more than 65,536 distinct values in one column (70,001: a
// multiple of neither 4096 nor any small worker count), grouped alone, under
// a small parent column and above one: tens of thousands of result groups.
func bigGroups(t *testing.T, n int) {
	spec := gen.DataSpec{Recipe: &gen.Recipe{N: n, Cols: []gen.ColSpec{
		{Name: "g", Kind: gen.KMod, K: 2, Prefix: "p"}, {Name: "u", Prefix: "r", Kind: gen.KUnique}}}}
	taut := model.Not(model.Eq("g", "none"))
	run(t, &Case{Data: spec, Queries: []Q{{taut, []string{"u"}}, {taut, []string{"g", "u"}}, {taut, []string{"u", "g"}}, {model.Eq("g", "p1"), []string{"u"}}}})
	// few groups of more than 65,536 rows each (counts beyond 16 bits)
	spec2 := gen.DataSpec{Recipe: &gen.Recipe{N: 2 * n, Cols: []gen.ColSpec{
		{Name: "g", Kind: gen.KMod, K: 2, Prefix: "p"}, {Name: "h", Kind: gen.KDiv, K: n}}}}
	run(t, &Case{Data: spec2, Queries: []Q{{taut, []string{"g"}}, {taut, []string{"h", "g"}}, {model.Eq("h", "1"), []string{"g", "h"}}}})
}

// bound trims a group-by list so that the nested refinement the index has to
// do (groups at a level x values of the next column) stays within a budget;
// trimming is construction, not rejection, and the number of trims is counted.
func bound(d *model.Data, n int, gb []string, budget int) []string {
	groups, cost := 1, 0
	for i, c := range gb {
		v := len(d.Values(c))
		cost += groups * v
		if cost > budget {
			evid.Note("groupby_lists_trimmed_for_cost", 1)
			return gb[:i]
		}
		groups *= v
		if groups > n {
			groups = n
		}
		if groups < 1 {
			groups = 1
		}
	}
	return gb
}

func replay(cf *evid.CaseFile) error {
	var c Case
	if err := evid.Decode(cf.Gob, &c); err != nil {
		return fmt.Errorf("undecodable case: %v", err)
	}
	return oracle(&c)
}

func TestQuick(t *testing.T) {
	if shard, _ := evid.Shard(); shard == 0 {
		fix.Pinned(t, prop, replay)
		prelude(t, []int{0, 1, 7, 1000, 1001, 4097, 65537})
	}
	if shard, _ := evid.Shard(); shard == 1 {
		bigGroups(t, 70001)
	}
	fix.Check(t, "explicit", 150, func(rt *rapid.T) {
		run(rt, drawCase(rt, gen.DataOpts{MaxRows: 40}, 10))
	})
	fix.Check(t, "recipe", 10, func(rt *rapid.T) {
		run(rt, drawCase(rt, gen.DataOpts{MaxRecipeN: 20000, RecipeProb: 100, Unique: true}, 6))
	})
}

func TestThorough(t *testing.T) {
	shard, _ := evid.Shard()
	if shard == 0 {
		fix.Pinned(t, prop, replay)
		prelude(t, []int{0, 1, 7, 999, 1000, 1001, 4095, 4096, 4097, 65535, 65536, 65537, 131073})
	}
	if shard == 1 {
		bigGroups(t, 70001)
		bigGroups(t, 131075)
	}
	fix.Check(t, "explicit", 400, func(rt *rapid.T) {
		run(rt, drawCase(rt, gen.DataOpts{MaxRows: 60}, 20))
	})
	fix.Check(t, "recipe", 30, func(rt *rapid.T) {
		run(rt, drawCase(rt, gen.DataOpts{MaxRecipeN: 100000, RecipeProb: 100, Unique: shard%4 == 0}, 8))
	})
}

func TestReplay(t *testing.T) {
	cf := fix.ReplayFile(t)
	if err := replay(cf); err != nil {
		t.Fatalf("replay of %s/%s fails: %v", cf.Property, cf.Sub, err)
	}
}
