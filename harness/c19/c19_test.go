// C19 — `updog create` ingests a CSV faithfully in both modes.
package c19

import (
	"bytes"
	"crypto/sha256"
	"fmt"
	"os"
	"path/filepath"
	"strings"
	"sync"
	"testing"
	"time"
	"unicode"

	"github.com/akrennmair/updog/verifharness/evid"
	"github.com/akrennmair/updog/verifharness/fix"
	"github.com/akrennmair/updog/verifharness/model"
	"pgregory.net/rapid"
)

const prop = "C19"

func TestMain(m *testing.M) { fix.Main(m) }

// Malformation kinds.
const (
	MNone = iota
	MRagged
	MBareQuote
	MUnterminated
	MEmpty // a file of zero bytes: not even a header
	nMal
)

var malName = []string{"well-formed", "ragged-record", "bare-quote", "unterminated-quote", "zero-byte-file"}

// Existing output kinds.
const (
	ENone = iota
	EZero
	ERandom
	EIndex
	nExisting
)

var existName = []string{"absent", "0-bytes", "random-bytes", "valid-index"}

type Case struct {
	Header      []string
	Records     [][]string
	AlwaysQuote bool
	CRLF        bool
	FinalNL     bool
	Malformed   int
	MalAt       int
	Big         bool
	Existing    int
	Random      []byte
	// Global: bit mask of global command-line flags given before the
	// sub-command (1 -v, 2 --cpuprofile, 4 --memprofile); none of them may
	// change the outcome.
	Global int
	// Bystander: a valid index of other content waits under a name derived
	// from the output name (0 none, 1 <out>.tmp, 2 <out>~, 3 <out>.new, 4 .<base>.tmp)
	Bystander int
	// OutName: length of the output file's base name (0 = the short default);
	// file systems allow 255 bytes, and names derived from it must still fit
	OutName int
	// Prior: an earlier run of the same command line (same mode, same output
	// name) on a CSV of Prior+1 records (the same values on other records, and other values), whose last record
	// is ragged, failed; the user removed what it left under the output name
	// and runs the command again.  0 = no earlier run.
	Prior int
}

func (c *Case) Summary() string {
	var b strings.Builder
	fmt.Fprintf(&b, "mode=%s global-flags=%03b bystander=%d out-name-bytes=%d csv=%s existing-output=%s earlier-failed-run-records=%d header=%+q records[%d]", map[bool]string{true: "--big", false: "normal"}[c.Big], c.Global, c.Bystander, c.OutName, malName[c.Malformed], existName[c.Existing], c.Prior, c.Header, len(c.Records))
	for i, r := range c.Records {
		if i >= 5 {
			b.WriteString(" …")
			break
		}
		fmt.Fprintf(&b, " %+q", r)
	}
	fmt.Fprintf(&b, " quote-all=%v crlf=%v final-newline=%v", c.AlwaysQuote, c.CRLF, c.FinalNL)
	return b.String()
}

// norm is the documented header normalisation, written independently:
// lower-case, then every character outside a-z becomes '_'.
func norm(h string) string {
	var b strings.Builder
	for _, r := range h {
		r = unicode.ToLower(r)
		if r < 'a' || r > 'z' {
			r = '_'
		}
		b.WriteRune(r)
	}
	return b.String()
}

func needsQuote(f string, single bool) bool {
	if f == "" {
		return single // an empty line would be skipped by the reader
	}
	return strings.ContainsAny(f, "\",\n\r") || f[0] == ' ' && false
}

func (c *Case) csv() []byte {
	var b bytes.Buffer
	if c.Malformed == MEmpty {
		return nil
	}
	nl := "\n"
	if c.CRLF {
		nl = "\r\n"
	}
	writeRec := func(rec []string, last bool) {
		for i, f := range rec {
			if i > 0 {
				b.WriteByte(',')
			}
			if c.AlwaysQuote || needsQuote(f, len(rec) == 1) {
				b.WriteString(`"` + strings.ReplaceAll(f, `"`, `""`) + `"`)
			} else {
				b.WriteString(f)
			}
		}
		if !last || c.FinalNL {
			b.WriteString(nl)
		}
	}
	total := len(c.Records)
	writeRec(c.Header, total == 0 && c.Malformed == MNone)
	for i, r := range c.Records {
		if c.Malformed != MNone && i == c.MalAt%max(1, total) {
			switch c.Malformed {
			case MRagged:
				if len(r) > 1 && c.MalAt%2 == 0 {
					writeRec(r[:len(r)-1], false)
				} else {
					writeRec(append(append([]string(nil), r...), "extra"), false)
				}
				continue
			case MBareQuote:
				b.WriteString(`ab"cd` + strings.Repeat(",x", len(r)-1) + nl)
				continue
			case MUnterminated:
				b.WriteString(`"never closed` + strings.Repeat(",x", len(r)-1) + nl)
				continue
			}
		}
		writeRec(r, i == total-1)
	}
	if c.Malformed != MNone && total == 0 {
		switch c.Malformed {
		case MRagged:
			writeRec(append(append([]string(nil), c.Header...), "extra"), false)
		case MBareQuote:
			b.WriteString(`ab"cd` + strings.Repeat(",x", len(c.Header)-1) + nl)
		case MUnterminated:
			b.WriteString(`"never closed` + nl)
		}
	}
	return b.Bytes()
}

func digest(path string) string {
	b, err := os.ReadFile(path)
	if err != nil {
		return "absent"
	}
	return fmt.Sprintf("%x/%d", sha256.Sum256(b), len(b))
}

func oracle(c *Case) error {
	dir := fix.CaseDir()
	defer os.RemoveAll(dir)
	in := filepath.Join(dir, "in.csv")
	if err := os.WriteFile(in, c.csv(), 0o644); err != nil {
		return fmt.Errorf("INFRA: %v", err)
	}
	out := filepath.Join(dir, "out.updog")
	if c.OutName > 0 {
		out = filepath.Join(dir, strings.Repeat("o", c.OutName-6)+".updog")
	}
	if c.Prior > 0 {
		pc := &Case{Header: c.Header, CRLF: c.CRLF, FinalNL: true, Malformed: MRagged, MalAt: c.Prior}
		for i := 0; i <= c.Prior; i++ {
			rec := make([]string, len(c.Header))
			for j := range rec {
				rec[j] = fmt.Sprintf("stale-%d-%d", i%7, j)
				if n := len(c.Records); n > 0 && i%2 == 0 {
					// the same values as the file of the second run, on other records
					rec[j] = c.Records[(i/2+1)%n][j]
				}
			}
			pc.Records = append(pc.Records, rec)
		}
		pin := filepath.Join(dir, "earlier.csv")
		if err := os.WriteFile(pin, pc.csv(), 0o644); err != nil {
			return fmt.Errorf("INFRA: %v", err)
		}
		pargs := []string{"create", "-o", out}
		if c.Big {
			pargs = append(pargs, "-b")
		}
		pr := fix.RunCLI(dir, 25*time.Second, []string{"TMPDIR=" + dir}, append(pargs, pin)...)
		if pr.Slow {
			panic("INFRA: updog create slow but making progress")
		}
		if pr.Hung {
			return fmt.Errorf("`updog %s` on a CSV whose last record is ragged never exits", strings.Join(pargs, " "))
		}
		if pr.Exit == 0 {
			return fmt.Errorf("`updog %s` exited 0 although the last of %d records is ragged", strings.Join(pargs, " "), c.Prior+1)
		}
		os.Remove(out)
	}
	switch c.Existing {
	case EZero:
		os.WriteFile(out, nil, 0o644)
	case ERandom:
		os.WriteFile(out, c.Random, 0o644)
	case EIndex:
		if _, err := fix.BuildAt(out, []model.Row{{"old": "index"}, {"old": "data", "x": "y"}}, fix.WMemFile); err != nil {
			return fmt.Errorf("INFRA: %v", err)
		}
	}
	var bystander string
	switch c.Bystander {
	case 1:
		bystander = out + ".tmp"
	case 2:
		bystander = out + "~"
	case 3:
		bystander = out + ".new"
	case 4:
		bystander = filepath.Join(dir, ".out.updog.tmp")
	}
	if bystander != "" {
		if _, err := fix.BuildAt(bystander, []model.Row{{"stale": "value"}, {"stale": "other", "left": "over"}}, fix.WMemFile); err != nil {
			return fmt.Errorf("INFRA: %v", err)
		}
	}
	before := digest(out)
	var args []string
	if c.Global&1 != 0 {
		args = append(args, "-v")
	}
	if c.Global&2 != 0 {
		args = append(args, "--cpuprofile", filepath.Join(dir, "cpu.prof"))
	}
	if c.Global&4 != 0 {
		args = append(args, "--memprofile", filepath.Join(dir, "mem.prof"))
	}
	args = append(args, "create", "-o", out)
	if c.Big {
		args = append(args, "-b")
	}
	args = append(args, in)
	r := fix.RunCLI(dir, 25*time.Second, []string{"TMPDIR=" + dir}, args...)
	label := fmt.Sprintf("`updog %s`", strings.Join(args[:len(args)-1], " "))
	if r.Slow {
		panic("INFRA: updog create slow but making progress")
	}
	if r.Hung {
		return fmt.Errorf("%s on a %s CSV never exits (no CPU progress, all threads parked); output so far: %s", label, malName[c.Malformed], clip(r.Out))
	}
	if strings.Contains(r.Out, "panic:") {
		return fmt.Errorf("%s panicked: %s", label, clip(r.Out))
	}
	mustFail := c.Malformed != MNone || c.Existing != ENone
	if c.Malformed == MEmpty && c.Existing == ENone {
		// whether a file without a header is an error is not stated; only the
		// treatment of an existing output is
		return nil
	}
	if mustFail {
		if r.Exit == 0 {
			return fmt.Errorf("%s exited 0 although the CSV is %s and the output was %s", label, malName[c.Malformed], existName[c.Existing])
		}
		if c.Existing != ENone {
			if after := digest(out); after != before {
				return fmt.Errorf("%s failed (exit %d) but touched the existing output: %s -> %s", label, r.Exit, before, after)
			}
		}
		return nil
	}
	if r.Exit != 0 {
		return fmt.Errorf("%s failed on a well-formed CSV: exit %d: %s", label, r.Exit, clip(r.Out))
	}
	// expected rows
	cols := make([]string, len(c.Header))
	for i, h := range c.Header {
		cols[i] = norm(h)
	}
	rows := make([]model.Row, len(c.Records))
	for i, rec := range c.Records {
		row := model.Row{}
		for j, f := range rec {
			row[cols[j]] = f
		}
		rows[i] = row
	}
	d := model.NewData(rows)
	idx, _, err := fix.Open(out, fix.OpenCfg{CacheCap: -1})
	if err != nil {
		return fmt.Errorf("%s exited 0 but OpenIndex fails: %v", label, err)
	}
	var gbs [][]string
	if len(rows) <= 60 && len(cols) >= 2 {
		gbs = append(gbs, []string{cols[0], cols[len(cols)-1]})
		if len(cols) >= 3 {
			gbs = append(gbs, []string{cols[1], cols[0], cols[2]})
		}
	}
	var extra []model.Expr
	for i := 0; i < len(rows) && i < 40; i++ {
		// the whole record is one row: AND over all of its fields matches exactly
		// the records equal to it
		var ands []model.Expr
		for j, f := range c.Records[i] {
			ands = append(ands, model.Eq(cols[j], f))
		}
		if len(ands) > 0 {
			extra = append(extra, model.And(ands...))
		}
	}
	if len(rows) > 50000 && len(cols) > 0 {
		last := cols[len(cols)-1]
		vals := d.Values(last)
		for i := 0; i < len(vals) && i < 8; i++ {
			for j := i + 1; j < len(vals) && j < 8; j++ {
				extra = append(extra, model.And(model.Eq(last, vals[i]), model.Eq(last, vals[j])))
			}
		}
	}
	perr := fix.ProbeAll(idx, d, fix.ProbeOpts{Extra: extra, ExtraGB: gbs})
	fix.Safe(idx.Close)
	if perr != nil {
		return fmt.Errorf("index created by %s differs from the CSV: %v", label, perr)
	}
	for _, full := range []bool{false, true} {
		sargs := []string{"schema", "-f", out}
		if full {
			sargs = append(sargs, "--full")
		}
		sr := fix.RunCLI(dir, 60*time.Second, nil, sargs...)
		if sr.Hung || sr.Exit != 0 {
			return fmt.Errorf("`updog %s` on the created index: exit %d hung=%v: %s", strings.Join(sargs, " "), sr.Exit, sr.Hung, clip(sr.Out))
		}
	}
	return nil
}

func clip(s string) string {
	if len(s) > 1200 {
		return s[:1200] + "…"
	}
	return s
}

func run(t interface{ Fatalf(string, ...any) }, c *Case) {
	quoted := false
	for _, r := range c.Records {
		for _, f := range r {
			if needsQuote(f, false) {
				quoted = true
			}
		}
	}
	cl := []string{"mode:" + map[bool]string{true: "big", false: "normal"}[c.Big], "csv:" + malName[c.Malformed], "output:" + existName[c.Existing]}
	if len(c.Records) > 1000 {
		cl = append(cl, "records>1000")
	}
	evid.Case(len(c.Records) >= 2 && quoted, c.Summary(), cl...)
	err := oracle(c)
	if err != nil && strings.HasPrefix(err.Error(), "INFRA:") {
		panic(err.Error())
	}
	if err != nil {
		fix.Fail(t, prop, "create", c, c.Summary(), err)
	}
}

var decorations = []string{"", "", " ", "_", "1", "9x", " Name", "-id", ".", "é", "ß", "日本", "Ä", "(%)", "\t", "A", "Z", "zz", " ", "__", "\u212a", "Temp \u212a", "ſ", "Σ"}
var fieldPool = []string{"", "x", "1", "a,b", "say \"hi\"", "\"", "\"\"", "line1\nline2", "\n", "é", "日本", "💩", " lead", "trail ", " ", "a b", "0", "NULL", "\xff", "tab\there", ",", ",,", "\"quoted\"", "'", ";", "#c"}

func drawCase(t *rapid.T, maxRecords int) *Case {
	c := &Case{Big: rapid.Bool().Draw(t, "big"), AlwaysQuote: rapid.Bool().Draw(t, "quoteall"), CRLF: rapid.Bool().Draw(t, "crlf"), FinalNL: rapid.Bool().Draw(t, "finalnl")}
	if rapid.IntRange(0, 3).Draw(t, "globalflags") == 0 {
		c.Global = rapid.IntRange(1, 7).Draw(t, "global")
	}
	if rapid.IntRange(0, 5).Draw(t, "bystander?") == 0 {
		c.Bystander = rapid.IntRange(1, 4).Draw(t, "bystander")
	}
	if rapid.IntRange(0, 7).Draw(t, "longout?") == 0 {
		c.OutName = rapid.SampledFrom([]int{200, 240, 250, 255}).Draw(t, "outname")
		c.Bystander = 0 // names derived from a 255-byte name do not exist
	}
	ncols := rapid.IntRange(1, 5).Draw(t, "ncols")
	for i := 0; i < ncols; i++ {
		// distinct after normalisation by construction: a unique two-letter
		// word (random case) in front, arbitrary decoration behind
		w := []byte{byte('a' + i), byte('a' + rapid.IntRange(0, 25).Draw(t, "w2"))}
		for k := range w {
			if rapid.Bool().Draw(t, "upper") {
				w[k] -= 32
			}
		}
		c.Header = append(c.Header, string(w)+rapid.SampledFrom(decorations).Draw(t, "deco"))
	}
	n := rapid.IntRange(0, maxRecords).Draw(t, "nrecords")
	if rapid.IntRange(0, 15).Draw(t, "many") == 0 {
		n = rapid.SampledFrom([]int{999, 1000, 1001, 1002, 2100}).Draw(t, "nmany")
	}
	small := rapid.IntRange(0, 2).Draw(t, "smallalphabet") > 0
	lensweep := rapid.IntRange(0, 5).Draw(t, "lensweep") == 0
	sweepStart := rapid.SampledFrom([]int{1, 41, 81, 121, 161, 201, 241}).Draw(t, "sweepstart")
	if lensweep && n < 400 {
		n = 400
	}
	for i := 0; i < n; i++ {
		rec := make([]string, ncols)
		for j := range rec {
			switch {
			case lensweep:
				// len(column)+len(field) sweeps a window of lengths; ten
				// consecutive records differ in the last byte only
				want := sweepStart + (i/10)%40 - len(norm(c.Header[j]))
				d := fmt.Sprint(i)
				if want > len(d) {
					d = strings.Repeat("0", want-len(d)) + d
				}
				rec[j] = d
			case n > 400:
				rec[j] = fmt.Sprintf("v%d", (i*(j+3))%(7+j*400))
			case small:
				rec[j] = rapid.SampledFrom([]string{"x", "y", "", "1", "a,b", "q\"q"}).Draw(t, "sf")
			case rapid.IntRange(0, 5).Draw(t, "raw") == 0:
				f := string(rapid.SliceOfN(rapid.Byte(), 0, 8).Draw(t, "bytes"))
				rec[j] = strings.ReplaceAll(f, "\r", "R") // CR is normalised by the reader: excluded
			default:
				rec[j] = rapid.SampledFrom(fieldPool).Draw(t, "field")
			}
		}
		c.Records = append(c.Records, rec)
	}
	if rapid.IntRange(0, 3).Draw(t, "malformed?") == 0 {
		c.Malformed = rapid.IntRange(1, nMal-1).Draw(t, "malformed")
		c.MalAt = rapid.IntRange(0, 1<<20).Draw(t, "malat")
	}
	if len(c.Records) == 0 && c.Global == 0 && rapid.Bool().Draw(t, "verbose-on-nothing") {
		c.Global = 1 // -v on a CSV without records (whatever is reported per record has none)
	}
	if rapid.IntRange(0, 9).Draw(t, "prior?") == 0 {
		c.Prior = rapid.SampledFrom([]int{3, 999, 1000, 1001, 1500, 2500}).Draw(t, "prior")
	}
	if rapid.IntRange(0, 3).Draw(t, "existing?") == 0 {
		c.Existing = rapid.IntRange(1, nExisting-1).Draw(t, "existing")
		c.Random = rapid.SliceOfN(rapid.Byte(), 1, 300).Draw(t, "random")
	}
	return c
}

// ---------------------------------------------------------------- concurrent creates on one output

// RaceCase: several `updog create` processes (modes drawn) with different CSVs
// and the SAME output path run at once.  Exactly one may succeed; the output
// must then be exactly that one's index (an existing output is never touched).
type RaceCase struct {
	Procs []bool // big mode per process
	Rows  int
}

func (c *RaceCase) Summary() string {
	return fmt.Sprintf("concurrent creates on one output: modes(big)=%v, process g ingests %d+g records tagged g", c.Procs, c.Rows)
}

func raceOracle(c *RaceCase) error {
	dir := fix.CaseDir()
	defer os.RemoveAll(dir)
	out := filepath.Join(dir, "out.updog")
	var datas [][]model.Row
	for g := range c.Procs {
		var b bytes.Buffer
		b.WriteString("w,i\n")
		var rows []model.Row
		for i := 0; i < c.Rows+g; i++ {
			fmt.Fprintf(&b, "writer%d,%d\n", g, i%3)
			rows = append(rows, model.Row{"w": fmt.Sprintf("writer%d", g), "i": fmt.Sprint(i % 3)})
		}
		datas = append(datas, rows)
		if err := os.WriteFile(filepath.Join(dir, fmt.Sprintf("in%d.csv", g)), b.Bytes(), 0o644); err != nil {
			return fmt.Errorf("INFRA: %v", err)
		}
	}
	res := make([]fix.CLIResult, len(c.Procs))
	var wg sync.WaitGroup
	start := make(chan struct{})
	for g, big := range c.Procs {
		wg.Add(1)
		go func(g int, big bool) {
			defer wg.Done()
			args := []string{"create", "-o", out}
			if big {
				args = append(args, "-b")
			}
			args = append(args, filepath.Join(dir, fmt.Sprintf("in%d.csv", g)))
			<-start
			res[g] = fix.RunCLI(dir, 40*time.Second, []string{"TMPDIR=" + dir}, args...)
		}(g, big)
	}
	close(start)
	wg.Wait()
	var winners []int
	for g, r := range res {
		if r.Slow {
			panic("INFRA: updog create slow")
		}
		if r.Hung {
			return fmt.Errorf("process %d never exits: %s", g, clip(r.Out))
		}
		if r.Exit == 0 {
			winners = append(winners, g)
		}
	}
	if len(winners) != 1 {
		return fmt.Errorf("%d of %d concurrent `updog create` runs on one output exited 0 (processes %v); exactly one can have created it, for the others it already existed", len(winners), len(c.Procs), winners)
	}
	idx, _, err := fix.Open(out, fix.OpenCfg{CacheCap: -1})
	if err != nil {
		return fmt.Errorf("output of the one successful create (process %d) does not open: %v", winners[0], err)
	}
	perr := fix.ProbeAll(idx, model.NewData(datas[winners[0]]), fix.ProbeOpts{})
	fix.Safe(idx.Close)
	if perr != nil {
		return fmt.Errorf("the output is not the index of the one successful create (process %d): a failing run touched it: %v", winners[0], perr)
	}
	return nil
}

func runRace(t interface{ Fatalf(string, ...any) }, c *RaceCase) {
	evid.Case(true, c.Summary(), "concurrent-creates")
	err := raceOracle(c)
	if err != nil && strings.HasPrefix(err.Error(), "INFRA:") {
		panic(err.Error())
	}
	if err != nil {
		fix.Fail(t, prop, "race", c, c.Summary(), err)
	}
}

func drawRace(t *rapid.T) *RaceCase {
	c := &RaceCase{Rows: rapid.SampledFrom([]int{0, 3, 500, 1500, 6000}).Draw(t, "rows")}
	n := rapid.IntRange(2, 5).Draw(t, "procs")
	for i := 0; i < n; i++ {
		c.Procs = append(c.Procs, rapid.Bool().Draw(t, "big"))
	}
	return c
}

func replay(cf *evid.CaseFile) error {
	if cf.Sub == "race" {
		var c RaceCase
		if err := evid.Decode(cf.Gob, &c); err != nil {
			return err
		}
		var err error
		for i := 0; i < 5 && err == nil; i++ {
			err = raceOracle(&c)
		}
		return err
	}
	var c Case
	if err := evid.Decode(cf.Gob, &c); err != nil {
		return err
	}
	return oracle(&c)
}

// bigCSV: a CSV with very many records and few distinct values per column (the
// stored bitmaps are tens of KiB each), ingested in both modes.
// manyValuesCSV: more than 65,536 distinct (column,value) pairs (a unique id
// per record) in both modes.
func manyValuesCSV(t *testing.T, n int) {
	for _, big := range []bool{false, true} {
		c := &Case{Header: []string{"Id", "Cc"}, Big: big, FinalNL: true}
		for i := 0; i < n; i++ {
			c.Records = append(c.Records, []string{fmt.Sprintf("id-%d", i), fmt.Sprintf("w%d", i%7)})
		}
		run(t, c)
	}
}

func bigCSV(t *testing.T, n int) {
	for _, big := range []bool{false, true} {
		c := &Case{Header: []string{"Aa", "Cc"}, Big: big, FinalNL: true}
		for i := 0; i < n; i++ {
			c.Records = append(c.Records, []string{fmt.Sprintf("v%d", i%3), fmt.Sprintf("w%d", i%7)})
		}
		run(t, c)
	}
}

// corners: fixed cases the drawn ones reach only now and then.
func corners(t *testing.T) {
	recs := [][]string{{"x", "1"}, {"y", "2"}, {"x", "2"}}
	for _, big := range []bool{false, true} {
		for _, prior := range []int{3, 1500} {
			run(t, &Case{Header: []string{"Aa", "Bb"}, Records: recs, Big: big, FinalNL: true, Prior: prior})
		}
		run(t, &Case{Header: []string{"Aa", "Bb"}, Big: big, FinalNL: true, Global: 1})
		run(t, &Case{Header: []string{"Aa", "Bb"}, Big: big, Global: 7})
		for _, ex := range []int{EZero, ERandom, EIndex} {
			run(t, &Case{Header: []string{"Aa"}, Big: big, Malformed: MEmpty, Existing: ex, Random: []byte("not an index")})
		}
	}
}

func TestQuick(t *testing.T) {
	fix.Pinned(t, prop, replay)
	corners(t)
	bigCSV(t, 200000)
	manyValuesCSV(t, 70001)
	fix.Check(t, "create", 240, func(rt *rapid.T) { run(rt, drawCase(rt, 60)) })
	fix.Check(t, "race", 25, func(rt *rapid.T) { runRace(rt, drawRace(rt)) })
}

func TestThorough(t *testing.T) {
	if shard, _ := evid.Shard(); shard == 0 {
		corners(t)
		fix.Pinned(t, prop, replay)
		bigCSV(t, 200000)
		bigCSV(t, 300001)
		manyValuesCSV(t, 70001)
		manyValuesCSV(t, 140003)
	}
	fix.Check(t, "create", 4000, func(rt *rapid.T) { run(rt, drawCase(rt, 300)) })
	fix.Check(t, "race", 150, func(rt *rapid.T) { runRace(rt, drawRace(rt)) })
}

func TestReplay(t *testing.T) {
	cf := fix.ReplayFile(t)
	if err := replay(cf); err != nil {
		t.Fatalf("replay of %s/%s fails: %v", cf.Property, cf.Sub, err)
	}
}
