// C15 — opening fails cleanly on non-index files and always releases the file.
package c15

import (
	"bytes"
	"encoding/gob"
	"fmt"
	"github.com/RoaringBitmap/roaring"
	"os"
	"path/filepath"
	"runtime"
	"strings"
	"testing"
	"time"

	"github.com/akrennmair/updog"
	"github.com/akrennmair/updog/verifharness/evid"
	"github.com/akrennmair/updog/verifharness/fix"
	"github.com/akrennmair/updog/verifharness/gen"
	"github.com/akrennmair/updog/verifharness/model"
	"go.etcd.io/bbolt"
	"pgregory.net/rapid"
)

const prop = "C15"

func TestMain(m *testing.M) { fix.Main(m) }

// Damage kinds applied (in order) to a copy of a valid index.
const (
	DNone          = iota
	DMissingPath   // the path does not exist
	DZeroBytes     // 0-byte file
	DEmptyDB       // bbolt db without any bucket
	DOtherBucket   // bbolt db with only a foreign bucket
	DDelBucket     // data bucket deleted
	DDelSchema     // 'S' deleted
	DEmptySchema   // 'S' = empty value
	DTruncSchema   // 'S' cut to Arg% of its length
	DFlipSchema    // one byte of 'S' xor-ed (position Arg%)
	DGarbageSchema // 'S' = garbage bytes
	DDelCounter    // 'I' deleted
	DShortCounter  // 'I' cut to Arg%4 bytes (0..3)
	DLongCounter   // 'I' extended by Arg%4+1 bytes
	DGarbageBitmap // Arg% of the 'V' values replaced by garbage (wrong cookie)
	DEmptyBitmap   // Arg% of the 'V' values replaced by an empty value
	DTruncBitmap   // Arg% of the 'V' values truncated to half
	DHugeGarbage   // one 'V' value replaced by > 64 KiB of junk (wrong cookie)
	DZeroSchema    // 'S' = zero bytes (as many as before, or Arg%9 of them)
	DOrphanBitmap  // an extra 'V' entry under a key no schema value has: garbage (Arg even) or a valid bitmap (Arg odd)
	DEmptyBucket   // the data bucket exists but holds nothing at all (schema, counter and every bitmap removed)
	nDamage
)

var damageName = []string{"none", "missing-path", "zero-bytes", "empty-db", "other-bucket", "del-bucket", "del-schema", "empty-schema",
	"trunc-schema", "flip-schema", "garbage-schema", "del-counter", "short-counter", "long-counter", "garbage-bitmap", "empty-bitmap", "trunc-bitmap", "huge-garbage-bitmap", "zero-schema", "orphan-bitmap", "empty-bucket"}

type Damage struct {
	Kind int
	Arg  int
}

// History shapes.
const (
	HOpenOpen           = iota // open (fail?) -> open again
	HOpenCloseCloseOpen        // open -> close -> close -> open -> close
	HOpenBolt                  // open (fail?) -> plain bbolt.Open with timeout
	HCloseThrice               // open -> close x3 (each under the watchdog) -> open -> close
	nHist
)

type Case struct {
	Data    gen.DataSpec
	Damages []Damage
	Open    fix.OpenCfg
	Hist    int
}

func (c *Case) Summary() string {
	var ds []string
	for _, d := range c.Damages {
		ds = append(ds, fmt.Sprintf("%s(%d)", damageName[d.Kind], d.Arg))
	}
	return fmt.Sprintf("%s damages=%v open=%s history=%d", c.Data.Summary(), ds, c.Open, c.Hist)
}

// expectation derived from the damages
type expect struct {
	mustFail bool
	why      string
}

func apply(dir string, rows []model.Row, c *Case) (path string, ex expect, err error) {
	path, _, err = fix.Build(dir, rows, fix.WMemFile)
	if err != nil {
		return "", ex, err
	}
	for _, dm := range c.Damages {
		switch dm.Kind {
		case DMissingPath:
			os.Remove(path)
			ex = expect{true, "the path does not exist"}
			return path, ex, nil
		case DZeroBytes:
			if err := os.WriteFile(path, nil, 0o644); err != nil {
				return "", ex, err
			}
			ex = expect{true, "the file is empty (no data bucket)"}
			return path, ex, nil
		case DEmptyDB, DOtherBucket:
			os.Remove(path)
			db, err := bbolt.Open(path, 0o644, nil)
			if err != nil {
				return "", ex, err
			}
			if dm.Kind == DOtherBucket {
				db.Update(func(tx *bbolt.Tx) error { _, e := tx.CreateBucket([]byte("other")); return e })
			}
			db.Close()
			ex = expect{true, "the database has no data bucket"}
			return path, ex, nil
		}
		db, err := bbolt.Open(path, 0o644, nil)
		if err != nil {
			return "", ex, err
		}
		uerr := db.Update(func(tx *bbolt.Tx) error {
			b := tx.Bucket([]byte("data"))
			if b == nil {
				return nil
			}
			switch dm.Kind {
			case DDelBucket:
				return tx.DeleteBucket([]byte("data"))
			case DDelSchema:
				return b.Delete([]byte("S"))
			case DEmptySchema:
				return b.Put([]byte("S"), []byte{})
			case DTruncSchema:
				s := append([]byte(nil), b.Get([]byte("S"))...)
				return b.Put([]byte("S"), s[:len(s)*(dm.Arg%100)/100])
			case DFlipSchema:
				s := append([]byte(nil), b.Get([]byte("S"))...)
				if len(s) > 0 {
					s[len(s)*(dm.Arg%100)/100] ^= byte(1 << (dm.Arg % 8))
				}
				return b.Put([]byte("S"), s)
			case DGarbageSchema:
				return b.Put([]byte("S"), bytes.Repeat([]byte{0xff, 0x00, 0x7f, byte(dm.Arg)}, 5))
			case DEmptyBucket:
				var keys [][]byte
				cur := b.Cursor()
				for k, _ := cur.First(); k != nil; k, _ = cur.Next() {
					keys = append(keys, append([]byte(nil), k...))
				}
				for _, k := range keys {
					if err := b.Delete(k); err != nil {
						return err
					}
				}
				return nil
			case DOrphanBitmap:
				key := []byte{'V', 0xfe, 0xed, byte(dm.Arg), byte(dm.Arg >> 8), 0x5a, 0xa5, 0x01, 0x02}
				if dm.Arg%4 >= 2 {
					key[1] = 0x00 // sorts before every real entry
				}
				val := []byte{0xde, 0xad, 0xbe, 0xef, 9, 9, 9, byte(dm.Arg)}
				if dm.Arg%2 == 1 {
					bm := roaring.BitmapOf(1, 2, 3)
					val, _ = bm.ToBytes()
				}
				return b.Put(key, val)
			case DZeroSchema:
				n := len(b.Get([]byte("S")))
				if dm.Arg%2 == 1 {
					n = 1 + dm.Arg%9
				}
				return b.Put([]byte("S"), make([]byte, n))
			case DDelCounter:
				return b.Delete([]byte("I"))
			case DShortCounter:
				s := append([]byte(nil), b.Get([]byte("I"))...)
				if len(s) >= 4 {
					s = s[:dm.Arg%4]
				}
				return b.Put([]byte("I"), s)
			case DLongCounter:
				s := append([]byte(nil), b.Get([]byte("I"))...)
				return b.Put([]byte("I"), append(s, make([]byte, dm.Arg%4+1)...))
			case DHugeGarbage:
				cur := b.Cursor()
				var keys [][]byte
				for k, _ := cur.Seek([]byte("V")); k != nil && k[0] == 'V'; k, _ = cur.Next() {
					keys = append(keys, append([]byte(nil), k...))
				}
				if len(keys) > 0 {
					junk := bytes.Repeat([]byte{0xde, 0xad, 0xbe, 0xef, 7, 7, 7, byte(dm.Arg)}, 9000+dm.Arg%4000)
					return b.Put(keys[dm.Arg%len(keys)], junk)
				}
				return nil
			case DGarbageBitmap, DEmptyBitmap, DTruncBitmap:
				var keys [][]byte
				cur := b.Cursor()
				for k, _ := cur.Seek([]byte("V")); k != nil && k[0] == 'V'; k, _ = cur.Next() {
					keys = append(keys, append([]byte(nil), k...))
				}
				hit := 0
				for i, k := range keys {
					if len(keys) > 1 && (i*37+dm.Arg)%100 >= dm.Arg%100+1 && i != dm.Arg%len(keys) {
						continue
					}
					hit++
					switch dm.Kind {
					case DGarbageBitmap:
						if err := b.Put(k, []byte{0xde, 0xad, 0xbe, 0xef, 0x01, 0x02, 0x03, byte(dm.Arg)}); err != nil {
							return err
						}
					case DEmptyBitmap:
						if err := b.Put(k, []byte{}); err != nil {
							return err
						}
					case DTruncBitmap:
						v := append([]byte(nil), b.Get(k)...)
						if err := b.Put(k, v[:len(v)/2]); err != nil {
							return err
						}
					}
				}
				_ = hit
			}
			return nil
		})
		db.Close()
		if uerr != nil {
			return "", ex, uerr
		}
	}
	ex, err = expectFromFile(path, c.Open.Preload)
	return path, ex, err
}

// expectFromFile derives, from the final state of the damaged file, whether
// the property REQUIRES OpenIndex to fail.  Everything else (truncated or
// bit-flipped schema, truncated bitmap) may go either way.
func expectFromFile(path string, preload bool) (ex expect, err error) {
	db, err := bbolt.Open(path, 0o644, &bbolt.Options{ReadOnly: true})
	if err != nil {
		return ex, err
	}
	defer db.Close()
	err = db.View(func(tx *bbolt.Tx) error {
		b := tx.Bucket([]byte("data"))
		switch {
		case b == nil:
			ex = expect{true, "the data bucket is missing"}
		case b.Get([]byte("S")) == nil:
			ex = expect{true, "the schema is missing"}
		case len(b.Get([]byte("S"))) == 0:
			ex = expect{true, "the schema is empty (undecodable)"}
		case schemaUndecodable(b.Get([]byte("S"))) != nil:
			ex = expect{true, fmt.Sprintf("the schema is undecodable (gob on a structurally identical type: %v)", schemaUndecodable(b.Get([]byte("S"))))}
		case b.Get([]byte("I")) == nil:
			ex = expect{true, "the row counter is missing"}
		case len(b.Get([]byte("I"))) < 4:
			ex = expect{true, "the row counter is shorter than 4 bytes"}
		case len(b.Get([]byte("I"))) > 4:
			ex = expect{true, "the row counter is longer than 4 bytes (malformed: the format stores exactly 4)"}
		case preload:
			cur := b.Cursor()
			for k, v := cur.Seek([]byte("V")); k != nil && k[0] == 'V'; k, v = cur.Next() {
				if len(v) == 0 || bytes.HasPrefix(v, []byte{0xde, 0xad, 0xbe, 0xef}) {
					ex = expect{true, "a bitmap is undecodable (empty or wrong cookie) and data is preloaded"}
					break
				}
			}
		}
		return nil
	})
	return ex, err
}

// schemaUndecodable decodes the stored schema into a type that is
// structurally identical to the library's (gob matches by structure and field
// name, not by type name): an error here means no decoder can read it.
func schemaUndecodable(b []byte) error {
	var m struct {
		Columns map[string]*struct{ Values map[string]uint64 }
	}
	return gob.NewDecoder(bytes.NewReader(b)).Decode(&m)
}

// released checks that nobody holds the file lock: a plain bbolt.Open with a
// timeout must succeed (a leaked lock never frees, so the timeout elapses only
// in the failing case).
func released(path string) error {
	db, err := bbolt.Open(path, 0o644, &bbolt.Options{Timeout: 2 * time.Second})
	if err != nil {
		return fmt.Errorf("file is still locked / not reopenable: %v", err)
	}
	return db.Close()
}

func tryOpen(path string, oc fix.OpenCfg) (*updog.Index, error) {
	var idx *updog.Index
	err, hung, slow := fix.Watchdog(30*time.Second, []string{"syscall.Flock+updog.OpenIndex", "bbolt.flock+updog.OpenIndex", "sync.(*RWMutex)+updog.OpenIndex", "sync.(*Mutex)+updog.OpenIndex", "sync.(*WaitGroup)+updog.OpenIndex"}, func() error {
		var e error
		idx, _, e = fix.Open(path, oc)
		return e
	})
	if slow {
		panic("INFRA: OpenIndex slow but not provably stuck")
	}
	if hung != "" {
		return nil, &fix.PanicError{Val: "OpenIndex does not return (goroutine parked in a lock wait that cannot end)", Stack: hung}
	}
	return idx, err
}

func oracle(c *Case) error {
	rows := c.Data.Rows()
	dir := fix.CaseDir()
	defer os.RemoveAll(dir)
	path, ex, err := apply(dir, rows, c)
	if err != nil {
		return fmt.Errorf("INFRA: cannot prepare file: %v", err)
	}
	missing := len(c.Damages) > 0 && c.Damages[0].Kind == DMissingPath
	step := func(label string) (*updog.Index, error) {
		idx, err := tryOpen(path, c.Open)
		if fix.IsPanic(err) {
			return nil, fmt.Errorf("%s: %v", label, err)
		}
		if ex.mustFail && err == nil {
			fix.Safe(idx.Close)
			return nil, fmt.Errorf("%s: OpenIndex succeeded although %s", label, ex.why)
		}
		if err != nil {
			if idx != nil {
				return nil, fmt.Errorf("%s: error together with a non-nil index", label)
			}
			if missing {
				if _, serr := os.Stat(path); serr == nil {
					return nil, fmt.Errorf("%s: opening a nonexistent path created it", label)
				}
				if _, lexical, _ := fix.Alias(path, c.Open.Via); lexical != path {
					if _, serr := os.Stat(lexical); serr == nil {
						return nil, fmt.Errorf("%s: opening a nonexistent path through %s created %s", label, fix.ViaName[c.Open.Via], lexical)
					}
				}
				return nil, nil
			}
			if rerr := released(path); rerr != nil {
				return nil, fmt.Errorf("%s: after the failed open (%v): %v", label, err, rerr)
			}
			return nil, nil
		}
		return idx, nil
	}
	d0 := model.NewData(rows)
	closeIt := func(label string, idx *updog.Index) error {
		// an index that opened is used before it is closed: one lookup per
		// (column,value) of the original data.  What a damaged file answers is
		// not specified, but it must not panic, and Close must still return and
		// release the file.
		n := 0
		queryable := !strings.Contains(label, "second Close") // never touch an index that is already closed

		for _, dm := range c.Damages {
			// truncated or bit-flipped payloads are decoded lazily by the bitmap
			// library and reading them can fault the whole process (outside
			// what C15 states); only clearly undecodable payloads are queried
			if dm.Kind != DGarbageBitmap && dm.Kind != DEmptyBitmap && dm.Kind != DHugeGarbage && dm.Kind != DOrphanBitmap {
				queryable = false
			}
		}
		for _, col := range d0.Columns() {
			if !queryable {
				break
			}
			for _, v := range d0.Values(col) {
				if n++; n > 60 {
					break
				}
				if _, err := fix.Exec(idx, fix.NewQuery(model.Eq(col, v), nil)); fix.IsPanic(err) && len(c.Damages) == 0 {
					return fmt.Errorf("%s: query on the opened index: %v", label, err)
				}
			}
		}
		cerr, hung, _ := fix.Watchdog(20*time.Second, []string{"updog.(*Index).Close"}, func() error { return idx.Close() })
		if hung != "" {
			return fmt.Errorf("%s: Close does not return after the index was queried:\n%s", label, hung)
		}
		if fix.IsPanic(cerr) {
			return fmt.Errorf("%s: Close: %v", label, cerr)
		}
		return nil
	}
	idx, err := step("first open")
	if err != nil {
		return err
	}
	switch c.Hist {
	case HOpenOpen:
		if idx != nil {
			if err := closeIt("close", idx); err != nil {
				return err
			}
			if err := released(path); err != nil {
				return fmt.Errorf("after Close: %v", err)
			}
		}
		idx2, err := step("second open")
		if err != nil {
			return err
		}
		if idx2 != nil {
			if err := closeIt("close 2", idx2); err != nil {
				return err
			}
			if err := released(path); err != nil {
				return fmt.Errorf("after the second handle was queried and closed: %v", err)
			}
		}
	case HOpenCloseCloseOpen:
		if idx != nil {
			if err := closeIt("close", idx); err != nil {
				return err
			}
			if err := closeIt("second Close", idx); err != nil {
				return err
			}
			if err := released(path); err != nil {
				return fmt.Errorf("after Close, Close: %v", err)
			}
			idx2, err := step("open after close/close")
			if err != nil {
				return err
			}
			if idx2 != nil {
				// an index that opened must at least serve its schema
				if err := fix.Safe(func() error { idx2.GetSchema(); return nil }); err != nil {
					return fmt.Errorf("GetSchema after reopen: %v", err)
				}
				closeIt("close 2", idx2)
				if err := released(path); err != nil {
					return fmt.Errorf("after the last Close: %v", err)
				}
			}
		}
	case HCloseThrice:
		if idx != nil {
			for n := 1; n <= 3; n++ {
				cerr, hung, _ := fix.Watchdog(20*time.Second, []string{"updog.(*Index).Close"}, func() error { return idx.Close() })
				if hung != "" {
					return fmt.Errorf("Close call #%d on the same index does not return:\n%s", n, hung)
				}
				if fix.IsPanic(cerr) {
					return fmt.Errorf("Close call #%d: %v", n, cerr)
				}
			}
			if err := released(path); err != nil {
				return fmt.Errorf("after three Close calls: %v", err)
			}
			idx2, err := step("open after three Close calls")
			if err != nil {
				return err
			}
			if idx2 != nil {
				closeIt("close 2", idx2)
			}
		}
	case HOpenBolt:
		if idx != nil {
			if err := closeIt("close", idx); err != nil {
				return err
			}
		}
		if !missing {
			if err := released(path); err != nil {
				return fmt.Errorf("plain bbolt.Open afterwards: %v", err)
			}
		}
	}
	return nil
}

func run(t interface{ Fatalf(string, ...any) }, c *Case) {
	cl := []string{"open:" + c.Open.String(), fmt.Sprintf("history:%d", c.Hist)}
	nt := false
	for _, d := range c.Damages {
		cl = append(cl, "damage:"+damageName[d.Kind])
		if d.Kind >= DEmptyDB {
			nt = true
		}
	}
	evid.Case(nt, c.Summary(), cl...)
	err := oracle(c)
	if err != nil && strings.HasPrefix(err.Error(), "INFRA:") {
		panic(err.Error())
	}
	if err != nil {
		fix.Fail(t, prop, "open", c, c.Summary(), err)
	}
}

func drawCase(t *rapid.T) *Case {
	c := &Case{}
	if rapid.IntRange(0, 4).Draw(t, "big") == 0 {
		c.Data = *gen.DrawRecipe(t, 3000, false)
	} else {
		c.Data = *gen.Explicit(t, gen.DataOpts{MaxRows: 20})
	}
	n := rapid.IntRange(0, 3).Draw(t, "ndamage")
	for i := 0; i < n; i++ {
		c.Damages = append(c.Damages, Damage{Kind: rapid.IntRange(1, nDamage-1).Draw(t, "kind"), Arg: rapid.IntRange(0, 999).Draw(t, "arg")})
	}
	c.Open.Preload = rapid.Bool().Draw(t, "preload")
	c.Open.CacheCap = rapid.SampledFrom([]int64{-1, -1, 0, 1 << 20}).Draw(t, "cap")
	c.Open.Twice = rapid.IntRange(0, 4).Draw(t, "twice") == 0
	if rapid.IntRange(0, 2).Draw(t, "alias") == 0 {
		c.Open.Via = rapid.IntRange(1, fix.NVia-1).Draw(t, "via")
	}
	c.Hist = rapid.IntRange(0, nHist-1).Draw(t, "hist")
	return c
}

func replay(cf *evid.CaseFile) error {
	if cf.Sub == "flood" {
		return fmt.Errorf("a failure of the fail flood is reproduced by ./check C15 quick")
	}
	if cf.Sub == "sweep" {
		return fmt.Errorf("a failure of the single-damage sweep is reproduced by ./check C15 quick (position is in the summary)")
	}
	var c Case
	if err := evid.Decode(cf.Gob, &c); err != nil {
		return fmt.Errorf("undecodable case: %v", err)
	}
	return oracle(&c)
}

// systematic: every single damage kind x every option set x every history
func systematic(t *testing.T) {
	spec := gen.DataSpec{Explicit: []model.Row{{"a": "1", "b": "x"}, {"a": "2"}, {}, {"a": "1", "b": "y"}}}
	for k := 0; k < nDamage; k++ {
		for _, oc := range []fix.OpenCfg{{CacheCap: -1}, {Preload: true, CacheCap: -1}, {CacheCap: 4096}, {Preload: true, CacheCap: 4096}} {
			for h := 0; h < nHist; h++ {
				c := &Case{Data: spec, Open: oc, Hist: h}
				if k != DNone {
					c.Damages = []Damage{{Kind: k, Arg: 150 + k}}
				}
				run(t, c)
			}
		}
	}
	evid.Exhaustive("every single damage kind x 4 option sets x 3 history shapes on a fixed small index")
}

// singleDamageSweep: an index with more than 2000 bitmaps; exactly ONE bitmap
// (at position p in key order) is replaced by garbage; preloading must fail
// for every p.  quick: positions around the multiples of 1000 plus a stride;
// thorough: every position.
func singleDamageSweep(t *testing.T, all bool) { singleDamageSweepN(t, all, 2200) }

// singleDamageSweepN with n > 60000 only damages a handful of positions (the
// first, around 65,536 from either end, the middle, the last) of an index with
// tens of thousands of bitmaps.
func singleDamageSweepN(t *testing.T, all bool, n int) {
	spec := gen.DataSpec{Recipe: &gen.Recipe{N: n, Cols: []gen.ColSpec{{Name: "u", Prefix: "r", Kind: gen.KUnique}, {Name: "a", Kind: gen.KMod, K: 7}}}}
	dir := fix.CaseDir()
	defer os.RemoveAll(dir)
	base, _, err := fix.Build(dir, spec.Rows(), fix.WMemFile)
	if err != nil {
		panic("INFRA: " + err.Error())
	}
	var keys [][]byte
	db, err := bbolt.Open(base, 0o644, &bbolt.Options{ReadOnly: true})
	if err != nil {
		panic("INFRA: " + err.Error())
	}
	db.View(func(tx *bbolt.Tx) error {
		cur := tx.Bucket([]byte("data")).Cursor()
		for k, _ := cur.Seek([]byte("V")); k != nil && k[0] == 'V'; k, _ = cur.Next() {
			keys = append(keys, append([]byte(nil), k...))
		}
		return nil
	})
	db.Close()
	shard, nshards := evid.Shard()
	tested := 0
	for p := range keys {
		near := p%1000 <= 2 || p%1000 >= 998 || p%256 <= 1 || p == len(keys)-1
		if n > 60000 {
			k := len(keys)
			near = false
			if !(p == 0 || p == 1 || p == 65535 || p == 65536 || p == k-65537 || p == k-65536 || p == k/2 || p == k-1) {
				continue
			}
		} else if !all && !near && p%97 != 0 {
			continue
		}
		if p%nshards != shard {
			continue
		}
		path, err := fix.CopyFile(dir, base)
		if err != nil {
			panic("INFRA: " + err.Error())
		}
		wdb, err := bbolt.Open(path, 0o644, nil)
		if err != nil {
			panic("INFRA: " + err.Error())
		}
		wdb.Update(func(tx *bbolt.Tx) error {
			return tx.Bucket([]byte("data")).Put(keys[p], []byte{0xde, 0xad, 0xbe, 0xef, 1, 2, 3, 4})
		})
		wdb.Close()
		tested++
		for _, oc := range []fix.OpenCfg{{Preload: true, CacheCap: -1}, {Preload: true, CacheCap: 1 << 20}} {
			idx, oerr := tryOpen(path, oc)
			evid.Case(true, fmt.Sprintf("single garbage bitmap at position %d of %d, open %s", p, len(keys), oc), "single-damage-sweep")
			if oerr == nil {
				fix.Safe(idx.Close)
				c := &Case{Data: spec, Damages: []Damage{{Kind: DGarbageBitmap, Arg: p}}, Open: oc, Hist: HOpenBolt}
				fix.Fail(t, prop, "sweep", c, fmt.Sprintf("%s; the ONLY damaged bitmap is number %d of %d in key order", c.Summary(), p, len(keys)),
					fmt.Errorf("OpenIndex(%s) succeeded although bitmap %d of %d is undecodable and data is preloaded", oc, p, len(keys)))
			}
			if fix.IsPanic(oerr) {
				c := &Case{Data: spec, Damages: []Damage{{Kind: DGarbageBitmap, Arg: p}}, Open: oc, Hist: HOpenBolt}
				fix.Fail(t, prop, "sweep", c, c.Summary(), oerr)
			}
			if rerr := released(path); rerr != nil {
				c := &Case{Data: spec, Damages: []Damage{{Kind: DGarbageBitmap, Arg: p}}, Open: oc, Hist: HOpenBolt}
				fix.Fail(t, prop, "sweep", c, c.Summary(), rerr)
			}
		}
		os.Remove(path)
	}
	if all {
		evid.Exhaustive(fmt.Sprintf("a single garbage bitmap at every one of the %d positions of a %d-row index, opened with preload", len(keys), n))
	}
	evid.Note("single_damage_positions_tested", int64(tested))
}

// failFlood: hundreds of FAILING opens in a row (every damage kind that must
// fail, every option set).  Whatever a failing open acquires it has to give
// back: the number of open descriptors and of goroutines must not grow with
// the number of failures, and a good file must still open afterwards.
func failFlood(t *testing.T, n int) {
	dir := fix.CaseDir()
	defer os.RemoveAll(dir)
	spec := gen.DataSpec{Explicit: []model.Row{{"a": "1", "b": "x"}, {"a": "2"}, {}, {"a": "1", "b": "y"}}}
	var paths []string
	var kinds []int
	for _, k := range []int{DMissingPath, DZeroBytes, DEmptyDB, DOtherBucket, DDelBucket, DDelSchema, DEmptySchema, DGarbageSchema, DDelCounter, DShortCounter, DGarbageBitmap, DEmptyBucket, DZeroSchema} {
		c := &Case{Data: spec, Damages: []Damage{{Kind: k, Arg: 150 + k}}}
		sub := filepath.Join(dir, fmt.Sprintf("k%d", k))
		os.MkdirAll(sub, 0o755)
		p, ex, err := apply(sub, spec.Rows(), c)
		if err != nil {
			panic("INFRA: " + err.Error())
		}
		if ex.mustFail || k == DGarbageBitmap {
			paths, kinds = append(paths, p), append(kinds, k)
		}
	}
	good, _, err := fix.Build(dir, spec.Rows(), fix.WMemFile)
	if err != nil {
		panic("INFRA: " + err.Error())
	}
	// files that end before the pages their header accounts for
	if raw, err := os.ReadFile(good); err == nil {
		for i, cut := range []int{len(raw) - 4096, len(raw) / 2 / 4096 * 4096, 3 * 4096} {
			if cut < 2*4096 || cut >= len(raw) {
				continue
			}
			p := filepath.Join(dir, fmt.Sprintf("cut%d.updog", i))
			if err := os.WriteFile(p, raw[:cut], 0o644); err != nil {
				panic("INFRA: " + err.Error())
			}
			paths, kinds = append(paths, p), append(kinds, -1-i)
		}
	}
	cfgs := []fix.OpenCfg{{Preload: true, CacheCap: -1}, {Preload: true, CacheCap: 4096}}
	warm := func() {
		for i, p := range paths {
			if idx, _, err := fix.Open(p, cfgs[i%2]); err == nil {
				fix.Safe(idx.Close)
			}
		}
	}
	warm()
	runtime.GC()
	fd0, g0 := fix.FDCount(0), runtime.NumGoroutine()
	failed := 0
	gcOn := fix.NoGC()
	for i := 0; i < n; i++ {
		p := paths[i%len(paths)]
		idx, _, err := fix.Open(p, cfgs[(i/len(paths))%2])
		if err == nil {
			fix.Safe(idx.Close)
			continue
		}
		failed++
	}
	time.Sleep(50 * time.Millisecond)
	fd1 := fix.FDCount(0) // before any collection: finalizers would close what was left open
	gcOn()
	runtime.GC()
	g1 := runtime.NumGoroutine()
	evid.Case(failed > n/2, fmt.Sprintf("fail flood: %d opens of %d damaged files, %d failed; descriptors %d -> %d, goroutines %d -> %d", n, len(paths), failed, fd0, fd1, g0, g1), "fail-flood")
	c := &Case{Data: spec, Damages: []Damage{{Kind: kinds[0], Arg: n}}, Open: cfgs[0]}
	if fd0 >= 0 && fd1 > fd0+8 {
		fix.Fail(t, prop, "flood", c, "fail flood", fmt.Errorf("after %d failed opens (preload; damage kinds %v, negative = file cut short) the process holds %d open descriptors, %d before: failing opens do not release what they acquire", failed, kinds, fd1, fd0))
	}
	if g1 > g0+8 {
		fix.Fail(t, prop, "flood", c, "fail flood", fmt.Errorf("after %d failed opens the process has %d goroutines, %d before", failed, g1, g0))
	}
	idx, _, err := fix.Open(good, cfgs[0])
	if err != nil {
		fix.Fail(t, prop, "flood", c, "fail flood", fmt.Errorf("after %d failed opens a complete index does not open any more: %v", failed, err))
		return
	}
	fix.Safe(idx.Close)
}

func TestQuick(t *testing.T) {
	fix.Pinned(t, prop, replay)
	failFlood(t, 1500)
	systematic(t)
	singleDamageSweep(t, false)
	singleDamageSweepN(t, false, 70001)
	fix.Check(t, "open", 600, func(rt *rapid.T) { run(rt, drawCase(rt)) })
}

func TestThorough(t *testing.T) {
	if shard, _ := evid.Shard(); shard == 0 {
		fix.Pinned(t, prop, replay)
		systematic(t)
		failFlood(t, 6000)
	}
	singleDamageSweep(t, true)
	singleDamageSweepN(t, false, 70001)
	fix.Check(t, "open", 30000, func(rt *rapid.T) { run(rt, drawCase(rt)) })
}

func TestReplay(t *testing.T) {
	cf := fix.ReplayFile(t)
	if err := replay(cf); err != nil {
		t.Fatalf("replay of %s/%s fails: %v", cf.Property, cf.Sub, err)
	}
}
