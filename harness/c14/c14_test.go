// C14 — no request can crash the server.
package c14

import (
	"fmt"
	"math"
	"os"
	"strings"
	"testing"
	"time"

	"github.com/akrennmair/updog"
	"github.com/akrennmair/updog/internal/convert"
	pb "github.com/akrennmair/updog/proto/updog/v1"
	"github.com/akrennmair/updog/verifharness/evid"
	"github.com/akrennmair/updog/verifharness/fix"
	"github.com/akrennmair/updog/verifharness/gen"
	"github.com/akrennmair/updog/verifharness/model"
	"google.golang.org/grpc/codes"
	"google.golang.org/grpc/status"
	"google.golang.org/protobuf/proto"
	"pgregory.net/rapid"
)

const prop = "C14"

func TestMain(m *testing.M) { fix.Main(m) }

// Req is one hostile request in wire format plus how it was made.
type Req struct {
	// GiveUpMS > 0: the client's deadline for this request in milliseconds
	// (it gives up while the server is still executing)
	GiveUpMS int
	Wire     []byte
	Kind     string
}

type Case struct {
	Data       gen.DataSpec
	ServerArgs []string
	Reqs       []Req
}

func (c *Case) Summary() string {
	var b strings.Builder
	fmt.Fprintf(&b, "%s server%v hostile requests[%d]:", c.Data.Summary(), c.ServerArgs, len(c.Reqs))
	for i, r := range c.Reqs {
		if i >= 6 {
			b.WriteString(" …")
			break
		}
		fmt.Fprintf(&b, " {%s, %d bytes: %s}", r.Kind, len(r.Wire), describe(r.Wire))
	}
	return b.String()
}

func describe(wire []byte) string {
	var req pb.QueryRequest
	if err := proto.Unmarshal(wire, &req); err != nil {
		return "undecodable"
	}
	s := req.String()
	if len(s) > 160 {
		s = s[:160] + "…"
	}
	return s
}

// ---------------------------------------------------------------- oracle at the process

func oracle(c *Case) (int, error) {
	rows := c.Data.Rows()
	d := model.NewData(rows)
	dir := fix.CaseDir()
	defer os.RemoveAll(dir)
	path, _, err := fix.Build(dir, rows, fix.WMemFile)
	if err != nil {
		return 0, fmt.Errorf("INFRA: %v", err)
	}
	srv, err := fix.StartServer(path, c.ServerArgs...)
	if err != nil {
		return 0, fmt.Errorf("INFRA: cannot start server: %v", err)
	}
	defer srv.Stop()
	// well-formed probe with a known answer
	probe := &pb.QueryRequest{}
	var probeWant []model.Result
	if cols := d.Columns(); len(cols) > 0 {
		e := model.Not(model.Eq(cols[0], "\x01absent"))
		e2 := model.Eq(cols[0], d.Values(cols[0])[0])
		probe.Queries = []*pb.Query{fix.PBQuery(e, nil, 0), fix.PBQuery(e2, []string{cols[0]}, 9)}
		probeWant = []model.Result{d.Query(e, nil), d.Query(e2, []string{cols[0]})}
	}
	doProbe := func(after string) error {
		resp, err := srv.Query(probe, 30*time.Second)
		if err != nil {
			srv.WaitExit(2 * time.Second)
			return fmt.Errorf("well-formed probe after %s fails: %v; server %s: %s", after, err, srv.ExitInfo(), clip(srv.Output()))
		}
		if len(resp.Results) != len(probeWant) {
			return fmt.Errorf("probe after %s: %d results, want %d", after, len(resp.Results), len(probeWant))
		}
		for i, w := range probeWant {
			if e := model.DiffResult(fix.FromPBResult(resp.Results[i]), w); e != nil {
				return fmt.Errorf("probe after %s answers wrongly: %v", after, e)
			}
		}
		return nil
	}
	if err := doProbe("server start"); err != nil {
		srv.WaitExit(2 * time.Second)
		if !srv.Alive() && (strings.Contains(srv.Output(), "panic:") || strings.Contains(srv.Output(), "fatal error:")) {
			// not a start-up problem: the server was up and died on a request
			return 0, fmt.Errorf("server process died on the first, well-formed request (%s): %s\n%s", describe(marshal(probe)), srv.ExitInfo(), clip(srv.Output()))
		}
		return 0, fmt.Errorf("INFRA: %v", err)
	}
	answered := 0
	fdStart, floods := -1, 0
	if srv.Cmd != nil && srv.Cmd.Process != nil {
		fdStart = fix.FDCount(srv.Cmd.Process.Pid)
	}
	defer func() { _ = floods }()
	for i, r := range c.Reqs {
		if r.Kind == "error-flood" {
			floods++
		}
		var req pb.QueryRequest
		if err := proto.Unmarshal(r.Wire, &req); err != nil {
			continue // not decodable from the wire: outside the property
		}
		label := fmt.Sprintf("hostile request %d (%s: %s)", i, r.Kind, describe(r.Wire))
		limit := 60 * time.Second
		if r.GiveUpMS > 0 {
			limit = time.Duration(r.GiveUpMS) * time.Millisecond
		}
		resp, rerr := srv.Query(&req, limit)
		if rerr != nil {
			st, _ := status.FromError(rerr)
			if st.Code() == codes.DeadlineExceeded && r.GiveUpMS == 0 {
				if srv.Alive() {
					panic("INFRA: request slow (>60s), server alive")
				}
			}
		} else if resp != nil {
			answered++
		}
		if r.GiveUpMS > 0 {
			// the caller has given up; the server may still be at work on the
			// request - it has to survive finishing (or dropping) it
			srv.WaitExit(1500 * time.Millisecond)
		}
		srv.WaitExit(20 * time.Millisecond)
		if !srv.Alive() {
			return answered, fmt.Errorf("server process died on %s: %s\n%s", label, srv.ExitInfo(), clip(srv.Output()))
		}
		if err := doProbe(label); err != nil {
			return answered, err
		}
	}
	if floods >= 100 && fdStart >= 0 && srv.Alive() {
		// hundreds of refused requests later the server must not hold more
		// descriptors than a handful above what it started with
		time.Sleep(100 * time.Millisecond)
		if fdEnd := fix.FDCount(srv.Cmd.Process.Pid); fdEnd > fdStart+16 {
			return answered, fmt.Errorf("after %d refused requests the server holds %d open descriptors, %d at the start: refused requests do not give back what they take", floods, fdEnd, fdStart)
		}
	}
	return answered, nil
}

func clip(s string) string {
	if i := strings.Index(s, "panic:"); i >= 0 {
		s = s[i:]
		if len(s) > 1800 {
			s = s[:1800]
		}
		return s
	}
	if len(s) > 1500 {
		s = s[len(s)-1500:]
	}
	return s
}

// ---------------------------------------------------------------- generators

type pos struct {
	e      *pb.Query_Expression
	parent *pb.Query_Expression
	depth  int
}

func positions(e *pb.Query_Expression, parent *pb.Query_Expression, depth int, out *[]pos) {
	*out = append(*out, pos{e, parent, depth})
	switch v := e.Value.(type) {
	case *pb.Query_Expression_Not_:
		if v.Not != nil && v.Not.Expr != nil {
			positions(v.Not.Expr, e, depth+1, out)
		}
	case *pb.Query_Expression_And_:
		for _, s := range v.And.GetExprs() {
			positions(s, e, depth+1, out)
		}
	case *pb.Query_Expression_Or_:
		for _, s := range v.Or.GetExprs() {
			positions(s, e, depth+1, out)
		}
	}
}

var omissionKinds = []string{"unset-oneof", "drop-query-expr", "drop-not-operand", "empty-operand-list", "empty-eq", "unresolved-placeholder", "unknown-column", "empty-expression-operand-appended", "mixed-placeholders"}

// placeholder numbers no parser produces but the wire format carries
var hostilePH = []int32{1, 2, 3, 4, 5, 6, 7, -1, 1, -7, math.MinInt32, 2, math.MaxInt32, 65535, -65536, 65536, 65537, 3, 1 << 20, -(1 << 20)}

// omit applies one structural omission at position k of a valid query.
func omit(q *pb.Query, kind string, k int) (string, bool) {
	var ps []pos
	positions(q.Expr, nil, 0, &ps)
	p := ps[k%len(ps)]
	switch kind {
	case "unset-oneof":
		p.e.Value = nil
	case "drop-query-expr":
		q.Expr = nil
	case "drop-not-operand":
		for i := range ps {
			pp := ps[(k+i)%len(ps)]
			if n, ok := pp.e.Value.(*pb.Query_Expression_Not_); ok {
				n.Not.Expr = nil
				return fmt.Sprintf("%s@depth%d", kind, pp.depth), true
			}
		}
		p.e.Value = &pb.Query_Expression_Not_{Not: &pb.Query_Expression_Not{}}
	case "empty-operand-list":
		if rapid_bool(k) {
			p.e.Value = &pb.Query_Expression_And_{And: &pb.Query_Expression_And{}}
		} else {
			p.e.Value = &pb.Query_Expression_Or_{Or: &pb.Query_Expression_Or{}}
		}
	case "empty-eq":
		p.e.Value = &pb.Query_Expression_Eq{Eq: &pb.Query_Expression_Equal{}}
	case "unresolved-placeholder":
		p.e.Value = &pb.Query_Expression_Eq{Eq: &pb.Query_Expression_Equal{Column: "a", Placeholder: hostilePH[k%len(hostilePH)]}}
	case "mixed-placeholders":
		// several unresolved placeholders of different sign and size in one query
		var ops []*pb.Query_Expression
		for i := 0; i < 2+k%3; i++ {
			ops = append(ops, &pb.Query_Expression{Value: &pb.Query_Expression_Eq{Eq: &pb.Query_Expression_Equal{Column: "a", Placeholder: hostilePH[(k+i*5)%len(hostilePH)]}}})
		}
		p.e.Value = &pb.Query_Expression_And_{And: &pb.Query_Expression_And{Exprs: ops}}
	case "unknown-column":
		// names of many shapes: the error text that names the column is built
		// from it (long, multi-byte, just around typical truncation lengths)
		names := []string{"no_such_column", strings.Repeat("列", 100), strings.Repeat("колонка", 20), strings.Repeat("x", 300), strings.Repeat("é", 199), strings.Repeat("日本", 33) + "z", "", "\x00", "%s%d%!", "a\nb"}
		p.e.Value = &pb.Query_Expression_Eq{Eq: &pb.Query_Expression_Equal{Column: names[k%len(names)], Value: "x"}}
	case "empty-expression-operand-appended":
		switch v := p.e.Value.(type) {
		case *pb.Query_Expression_And_:
			v.And.Exprs = append(v.And.Exprs, &pb.Query_Expression{})
		case *pb.Query_Expression_Or_:
			v.Or.Exprs = append(v.Or.Exprs, &pb.Query_Expression{})
		default:
			p.e.Value = &pb.Query_Expression_And_{And: &pb.Query_Expression_And{Exprs: []*pb.Query_Expression{{}}}}
		}
	}
	return fmt.Sprintf("%s@depth%d", kind, p.depth), true
}

func rapid_bool(k int) bool { return k%2 == 0 }

func deepNot(depth int, leaf *pb.Query_Expression) *pb.Query_Expression {
	e := leaf
	for i := 0; i < depth; i++ {
		e = &pb.Query_Expression{Value: &pb.Query_Expression_Not_{Not: &pb.Query_Expression_Not{Expr: e}}}
	}
	return e
}

func deepAnd(depth int, leaf *pb.Query_Expression) *pb.Query_Expression {
	e := leaf
	for i := 0; i < depth; i++ {
		e = &pb.Query_Expression{Value: &pb.Query_Expression_And_{And: &pb.Query_Expression_And{Exprs: []*pb.Query_Expression{leaf, e}}}}
	}
	return e
}

func marshal(req *pb.QueryRequest) []byte {
	b, err := proto.Marshal(req)
	if err != nil {
		// e.g. invalid UTF-8: cannot be put on the wire, not a case
		return nil
	}
	return b
}

func drawReq(t *rapid.T, pool *gen.LeafPool, allowBig bool) Req {
	valid := func() *pb.Query {
		e := gen.UTF8Expr(pool.Expr(t, gen.ExprOpts{MaxDepth: 4}))
		return fix.PBQuery(e, nil, int32(rapid.IntRange(0, 3).Draw(t, "id")))
	}
	kind := rapid.IntRange(0, 10).Draw(t, "reqkind")
	if (kind == 6 || kind == 7) && (!allowBig || rapid.IntRange(0, 7).Draw(t, "big?") != 0) {
		// deep and wide requests cost seconds each (evaluation is quadratic in
		// the nesting depth): keep them rare, and out of the in-process pre-filter
		kind = 0
	}
	switch kind {
	case 0, 1, 2, 3, 4: // structural omission inside a valid tree
		q := valid()
		kind := rapid.SampledFrom(omissionKinds).Draw(t, "omission")
		label, _ := omit(q, kind, rapid.IntRange(0, 1000).Draw(t, "position"))
		req := &pb.QueryRequest{Queries: []*pb.Query{q}}
		if rapid.Bool().Draw(t, "surround") {
			req.Queries = append([]*pb.Query{valid()}, append(req.Queries, valid())...)
		}
		switch rapid.IntRange(0, 7).Draw(t, "gbkind") {
		case 0:
			q.GroupBy = []string{"no_such_column"}
		case 1:
			q.GroupBy = []string{strings.Repeat(rapid.SampledFrom([]string{"列", "колонка", "x", "é"}).Draw(t, "gbname"), rapid.SampledFrom([]int{20, 67, 100, 300}).Draw(t, "gbnamelen"))}
		}
		return Req{Wire: marshal(req), Kind: label}
	case 8: // operand-count sweep: an AND/OR with exactly n operands (valid leaves)
		n := rapid.IntRange(0, 40).Draw(t, "noperands")
		leaf := fix.ToPB(gen.UTF8Expr(pool.Leaf(t, gen.ExprOpts{})))
		var ops []*pb.Query_Expression
		for i := 0; i < n; i++ {
			ops = append(ops, leaf)
		}
		var e *pb.Query_Expression
		if rapid.Bool().Draw(t, "sweepop") {
			e = &pb.Query_Expression{Value: &pb.Query_Expression_And_{And: &pb.Query_Expression_And{Exprs: ops}}}
		} else {
			e = &pb.Query_Expression{Value: &pb.Query_Expression_Or_{Or: &pb.Query_Expression_Or{Exprs: ops}}}
		}
		if rapid.Bool().Draw(t, "sweepnest") {
			e = &pb.Query_Expression{Value: &pb.Query_Expression_Not_{Not: &pb.Query_Expression_Not{Expr: e}}}
		}
		q := &pb.Query{Expr: e}
		if len(pool.Cols) > 0 && rapid.IntRange(0, 2).Draw(t, "longgb") == 0 {
			// a very long group-by list (one or two columns repeated): sizes that
			// are computed as products over the list overflow
			reps := rapid.SampledFrom([]int{7, 31, 40, 62, 63, 64, 65, 100, 200}).Draw(t, "gbreps")
			for i := 0; i < reps; i++ {
				q.GroupBy = append(q.GroupBy, pool.Cols[i%min(2, len(pool.Cols))])
			}
			return Req{Wire: marshal(&pb.QueryRequest{Queries: []*pb.Query{q}}), Kind: "long-group-by-list"}
		}
		return Req{Wire: marshal(&pb.QueryRequest{Queries: []*pb.Query{q}}), Kind: fmt.Sprintf("operand-count-%d", n)}
	case 5: // nil / empty query entries
		req := &pb.QueryRequest{Queries: []*pb.Query{{}, {Id: 4}, {GroupBy: []string{"a"}}}}
		return Req{Wire: marshal(req), Kind: "empty-queries"}
	case 6: // deep nesting around the decoder's recursion limit
		depth := rapid.SampledFrom([]int{100, 1000, 4000, 4990, 4999, 5000, 9990, 9998, 10001, 20000}).Draw(t, "depth")
		leaf := fix.ToPB(gen.UTF8Expr(pool.Leaf(t, gen.ExprOpts{})))
		var e *pb.Query_Expression
		if rapid.Bool().Draw(t, "deepkind") {
			e = deepNot(depth, leaf)
		} else {
			e = deepAnd(depth/2, leaf)
		}
		return Req{Wire: marshal(&pb.QueryRequest{Queries: []*pb.Query{{Expr: e}}}), Kind: fmt.Sprintf("deep-nesting-%d", depth)}
	case 7: // wide
		n := rapid.SampledFrom([]int{1000, 20000}).Draw(t, "width")
		and := &pb.Query_Expression_And{}
		leaf := fix.ToPB(gen.UTF8Expr(pool.Leaf(t, gen.ExprOpts{})))
		for i := 0; i < n; i++ {
			and.Exprs = append(and.Exprs, leaf)
		}
		return Req{Wire: marshal(&pb.QueryRequest{Queries: []*pb.Query{{Expr: &pb.Query_Expression{Value: &pb.Query_Expression_And_{And: and}}}}}), Kind: "wide"}
	default: // wire-level mutation of a valid request, kept iff it still decodes
		wire := marshal(&pb.QueryRequest{Queries: []*pb.Query{valid(), valid()}})
		for try := 0; try < 8; try++ {
			m := append([]byte(nil), wire...)
			nm := rapid.IntRange(1, 4).Draw(t, "nmut")
			for j := 0; j < nm && len(m) > 0; j++ {
				i := rapid.IntRange(0, len(m)-1).Draw(t, "at")
				switch rapid.IntRange(0, 3).Draw(t, "mut") {
				case 0:
					m[i] ^= byte(1 << rapid.IntRange(0, 7).Draw(t, "bit"))
				case 1:
					m = append(m[:i:i], m[i+1:]...)
				case 2:
					m = append(m[:i:i], append([]byte{byte(rapid.IntRange(0, 255).Draw(t, "ins"))}, m[i:]...)...)
				case 3:
					m = m[:i]
				}
			}
			var req pb.QueryRequest
			if proto.Unmarshal(m, &req) == nil {
				return Req{Wire: m, Kind: "wire-mutation"}
			}
		}
		evid.Note("wire_mutations_undecodable_fallback", 1)
		return Req{Wire: wire, Kind: "wire-valid"}
	}
}

func drawCase(t *rapid.T, nreq int) *Case {
	c := &Case{}
	c.Data = *gen.Explicit(t, gen.DataOpts{MaxRows: 12, IdentCols: true})
	gen.UTF8Spec(&c.Data)
	c.ServerArgs = rapid.SampledFrom([][]string{{}, {"-c=false"}, {"-p"}, {"env:GOMAXPROCS=1"}, {"-p", "env:GOMAXPROCS=3"}}).Draw(t, "sargs")
	pool := gen.NewLeafPool(model.NewData(c.Data.Rows()))
	n := rapid.IntRange(1, nreq).Draw(t, "nreq")
	for i := 0; i < n; i++ {
		r := drawReq(t, pool, true)
		if r.Wire != nil {
			c.Reqs = append(c.Reqs, r)
		}
	}
	if rapid.IntRange(0, 5).Draw(t, "slow+incomplete") == 0 {
		// one request that is both slow (a deep chain costs a noticeable
		// fraction of a second) and contains an incomplete query
		leaf := fix.ToPB(gen.UTF8Expr(pool.Leaf(t, gen.ExprOpts{})))
		// evaluation cost is quadratic in the depth: 9000 levels take a good
		// fraction of a second, two of them make the request slow for sure
		// (protobuf-go refuses more than 10000 nested messages = 5000 NOT levels;
		// 4900 levels cost about half a second each)
		heavy := &pb.Query{Expr: deepNot(rapid.SampledFrom([]int{4500, 4900}).Draw(t, "heavydepth"), leaf)}
		heavy2 := &pb.Query{Expr: deepNot(4900, leaf)}
		var broken *pb.Query
		switch rapid.IntRange(0, 2).Draw(t, "brokenkind") {
		case 0:
			broken = &pb.Query{}
		case 1:
			broken = &pb.Query{Expr: &pb.Query_Expression{Value: &pb.Query_Expression_Not_{Not: &pb.Query_Expression_Not{}}}}
		default:
			broken = &pb.Query{Expr: &pb.Query_Expression{Value: &pb.Query_Expression_And_{And: &pb.Query_Expression_And{Exprs: []*pb.Query_Expression{{}}}}}}
		}
		if w := marshal(&pb.QueryRequest{Queries: []*pb.Query{heavy, heavy2, broken}}); w != nil {
			c.Reqs = append(c.Reqs, Req{Wire: w, Kind: "slow-request-with-incomplete-query"})
		}
		if w := marshal(&pb.QueryRequest{Queries: []*pb.Query{heavy, heavy2}}); w != nil {
			// the same slow work, valid this time, with a caller that gives up early
			c.Reqs = append(c.Reqs, Req{Wire: w, Kind: "slow-valid-request-given-up-by-the-client", GiveUpMS: rapid.SampledFrom([]int{1, 20, 60, 150}).Draw(t, "giveup")})
		}
	}
	if rapid.IntRange(0, 7).Draw(t, "flood") == 0 {
		// error flood: many cheap failing requests in a row (a handler that
		// leaks something per failed request wears out)
		bad := marshal(&pb.QueryRequest{Queries: []*pb.Query{{Expr: fix.ToPB(model.Eq("no_such_column", "x"))}, {}}})
		if rapid.Bool().Draw(t, "floodmany") {
			// several members that fail at once, each in its own way (a server that
			// runs the members of a request side by side has them fail together)
			nbad := rapid.SampledFrom([]int{2, 3, 8, 12, 16}).Draw(t, "floodmembers")
			var qs []*pb.Query
			for i := 0; i < nbad; i++ {
				switch i % 4 {
				case 0:
					qs = append(qs, &pb.Query{})
				case 1:
					qs = append(qs, &pb.Query{Expr: fix.ToPB(model.Eq(fmt.Sprintf("no_such_column_%d", i), "x"))})
				case 2:
					qs = append(qs, &pb.Query{Expr: &pb.Query_Expression{Value: &pb.Query_Expression_Not_{Not: &pb.Query_Expression_Not{}}}})
				default:
					qs = append(qs, &pb.Query{Expr: &pb.Query_Expression{}, GroupBy: []string{"nope"}})
				}
			}
			bad = marshal(&pb.QueryRequest{Queries: qs})
		}
		k := rapid.SampledFrom([]int{140, 260}).Draw(t, "floodn")
		for i := 0; i < k; i++ {
			c.Reqs = append(c.Reqs, Req{Wire: bad, Kind: "error-flood"})
		}
	}
	return c
}

// prefilter: in-process nomination (convert + Execute under recover).  A
// nominated request is only a candidate; the verdict comes from the server.
func nominated(idx *updog.Index, wire []byte) bool {
	var req pb.QueryRequest
	if proto.Unmarshal(wire, &req) != nil {
		return false
	}
	err := fix.Safe(func() error {
		for _, q := range req.Queries {
			_, _ = idx.Execute(convert.ToQuery(q))
		}
		return nil
	})
	return fix.IsPanic(err)
}

func run(t interface{ Fatalf(string, ...any) }, c *Case, sub string) {
	answered, err := oracle(c)
	if err != nil && strings.HasPrefix(err.Error(), "INFRA:") {
		panic(err.Error())
	}
	kinds := map[string]bool{}
	nt := false
	for _, r := range c.Reqs {
		k := strings.SplitN(r.Kind, "@", 2)[0]
		if strings.HasPrefix(k, "deep-nesting") {
			k = "deep-nesting"
		}
		if strings.HasPrefix(k, "operand-count") {
			k = "operand-count-sweep(0..40)"
		}
		kinds["kind:"+k] = true
		if strings.Contains(r.Kind, "@depth") && !strings.HasSuffix(r.Kind, "@depth0") {
			nt = true
		}
	}
	var cl []string
	for k := range kinds {
		cl = append(cl, k)
	}
	evid.Note("hostile_requests_sent", int64(len(c.Reqs)))
	evid.Note("hostile_requests_answered_with_response", int64(answered))
	evid.Case(nt, c.Summary(), cl...)
	if err != nil {
		fix.Fail(t, prop, sub, c, c.Summary(), err)
	}
}

// prefilterSearch generates many hostile requests cheaply, and sends only the
// nominated ones (plus a sample of the others) to a real server.
func prefilterSearch(t *testing.T, n int) {
	fix.Check(t, "prefilter", n/200, func(rt *rapid.T) {
		c := &Case{}
		c.Data = *gen.Explicit(rt, gen.DataOpts{MaxRows: 8, IdentCols: true})
		gen.UTF8Spec(&c.Data)
		rows := c.Data.Rows()
		pool := gen.NewLeafPool(model.NewData(rows))
		dir := fix.CaseDir()
		defer os.RemoveAll(dir)
		path, _, err := fix.Build(dir, rows, fix.WMemFile)
		if err != nil {
			panic("INFRA: " + err.Error())
		}
		idx, _, err := fix.Open(path, fix.OpenCfg{CacheCap: -1})
		if err != nil {
			panic("INFRA: " + err.Error())
		}
		noms := 0
		for i := 0; i < 200; i++ {
			r := drawReq(rt, pool, false)
			if r.Wire == nil {
				continue
			}
			evid.Note("prefilter_requests_generated", 1)
			if nominated(idx, r.Wire) {
				noms++
				if noms <= 6 {
					r.Kind += " (nominated by in-process pre-filter)"
					c.Reqs = append(c.Reqs, r)
				}
			}
		}
		fix.Safe(idx.Close)
		evid.Note("prefilter_nominations", int64(noms))
		if len(c.Reqs) > 0 {
			run(rt, c, "request")
		}
	})
}

func replay(cf *evid.CaseFile) error {
	var c Case
	if err := evid.Decode(cf.Gob, &c); err != nil {
		return err
	}
	_, err := oracle(&c)
	return err
}

// degenerate: operand-less nodes, alone and under NOT, sent to servers whose
// index has no rows, only rows without columns, or one row.
func degenerate(t *testing.T) {
	var reqs []Req
	for _, e := range []model.Expr{model.Or(), model.And(), model.Not(model.Or()), model.Not(model.And()), model.Not(model.Not(model.Or())),
		model.And(model.Not(model.Or())), model.Or(model.Not(model.And()), model.And()), model.Not(model.Or(model.Or(), model.And()))} {
		for _, gb := range [][]string{nil, {"a"}, {"a", "a"}} {
			q := fix.PBQuery(e, gb, 0)
			reqs = append(reqs, Req{Wire: marshal(&pb.QueryRequest{Queries: []*pb.Query{q}}), Kind: "empty-operand-list@depth1"})
		}
	}
	// group-by lists with columns repeated in every pattern up to length 5
	// over three columns (each list is a request of its own: a server that
	// dies is restarted by the next case only)
	var lists [][]string
	var rec func(prefix []string)
	rec = func(prefix []string) {
		if len(prefix) >= 2 {
			lists = append(lists, append([]string(nil), prefix...))
		}
		if len(prefix) == 5 {
			return
		}
		for _, c := range []string{"a", "b", "c"} {
			rec(append(prefix, c))
		}
	}
	rec(nil)
	var gbReqs []Req
	for _, gb := range lists {
		q := fix.PBQuery(model.Not(model.Eq("a", "none")), gb, 0)
		gbReqs = append(gbReqs, Req{Wire: marshal(&pb.QueryRequest{Queries: []*pb.Query{q}}), Kind: "repeated-group-by-columns"})
	}
	run(t, &Case{Data: gen.DataSpec{Explicit: []model.Row{{"a": "1", "b": "x", "c": "p"}, {"a": "2", "b": "x", "c": "q"}, {"a": "1", "b": "y"}}}, Reqs: gbReqs}, "request")
	for _, rows := range [][]model.Row{{}, {{}, {}, {}}, {{"a": "1"}}} {
		for _, args := range [][]string{nil, {"-p"}} {
			run(t, &Case{Data: gen.DataSpec{Explicit: rows}, ServerArgs: args, Reqs: reqs}, "request")
		}
	}
}

func TestQuick(t *testing.T) {
	fix.Pinned(t, prop, replay)
	degenerate(t)
	fix.Check(t, "request", 25, func(rt *rapid.T) { run(rt, drawCase(rt, 30), "request") })
	prefilterSearch(t, 20000)
}

func TestThorough(t *testing.T) {
	if shard, _ := evid.Shard(); shard == 0 {
		degenerate(t)
	}
	if shard, _ := evid.Shard(); shard == 0 {
		fix.Pinned(t, prop, replay)
	}
	fix.Check(t, "request", 150, func(rt *rapid.T) { run(rt, drawCase(rt, 60), "request") })
	prefilterSearch(t, 60000)
}

func TestReplay(t *testing.T) {
	cf := fix.ReplayFile(t)
	if err := replay(cf); err != nil {
		t.Fatalf("replay of %s/%s fails: %v", cf.Property, cf.Sub, err)
	}
}

// FuzzRequest: native fuzzing on request bytes; the in-process pre-filter
// nominates, a real server decides.
func FuzzRequest(f *testing.F) {
	seedQ := func(e model.Expr) []byte {
		return marshal(&pb.QueryRequest{Queries: []*pb.Query{fix.PBQuery(e, []string{"a"}, 1)}})
	}
	a, b := model.Eq("a", "1"), model.Eq("b", "x")
	f.Add(seedQ(a))
	f.Add(seedQ(model.Not(model.And(a, model.Or(b, a)))))
	f.Add(marshal(&pb.QueryRequest{Queries: []*pb.Query{{}}}))
	spec := gen.DataSpec{Explicit: []model.Row{{"a": "1", "b": "x"}, {"a": "2"}, {}}}
	dir := fix.CaseDir()
	path, _, err := fix.Build(dir, spec.Rows(), fix.WMemFile)
	if err != nil {
		f.Fatal(err)
	}
	idx, _, err := fix.Open(path, fix.OpenCfg{CacheCap: -1})
	if err != nil {
		f.Fatal(err)
	}
	f.Fuzz(func(t *testing.T, wire []byte) {
		if len(wire) > 1<<16 || !nominated(idx, wire) {
			return
		}
		c := &Case{Data: spec, Reqs: []Req{{Wire: wire, Kind: "native-fuzz (nominated)"}}}
		if _, err := oracle(c); err != nil && !strings.HasPrefix(err.Error(), "INFRA:") {
			os.Setenv("VERIF_SHARD", "98")
			fix.Fail(t, prop, "request", c, c.Summary(), err)
		}
	})
}
