// Package model is the reference semantics used as oracle: plain Go rows, a
// recursive evaluator and SQL GROUP BY.  It shares no code with updog (no
// roaring, no hashing, no bbolt).
package model

import (
	"fmt"
	"sort"
	"strings"
)

type Row = map[string]string

// Expression operators.
const (
	OpEq = iota
	OpNot
	OpAnd
	OpOr
)

// Expr is a serialisable expression tree.
type Expr struct {
	Op   int
	Col  string
	Val  string
	Subs []Expr
}

func Eq(c, v string) Expr        { return Expr{Op: OpEq, Col: c, Val: v} }
func Not(e Expr) Expr            { return Expr{Op: OpNot, Subs: []Expr{e}} }
func And(es ...Expr) Expr        { return Expr{Op: OpAnd, Subs: es} }
func Or(es ...Expr) Expr         { return Expr{Op: OpOr, Subs: es} }
func (e Expr) IsLeaf() bool      { return e.Op == OpEq }
func (e Expr) HasOperator() bool { return e.Op != OpEq }

func (e Expr) String() string {
	switch e.Op {
	case OpEq:
		return fmt.Sprintf("%+q=%+q", e.Col, e.Val)
	case OpNot:
		return "NOT(" + e.Subs[0].String() + ")"
	}
	parts := make([]string, len(e.Subs))
	for i, s := range e.Subs {
		parts[i] = s.String()
	}
	name := "AND"
	if e.Op == OpOr {
		name = "OR"
	}
	return name + "(" + strings.Join(parts, ", ") + ")"
}

// Size is the number of nodes.
func (e Expr) Size() int {
	n := 1
	for _, s := range e.Subs {
		n += s.Size()
	}
	return n
}

func (e Expr) Depth() int {
	d := 0
	for _, s := range e.Subs {
		if x := s.Depth(); x > d {
			d = x
		}
	}
	return d + 1
}

func (e Expr) HasNot() bool {
	if e.Op == OpNot {
		return true
	}
	for _, s := range e.Subs {
		if s.HasNot() {
			return true
		}
	}
	return false
}

// Leaves appends all (column,value) leaves.
func (e Expr) Leaves(dst []Expr) []Expr {
	if e.Op == OpEq {
		return append(dst, e)
	}
	for _, s := range e.Subs {
		dst = s.Leaves(dst)
	}
	return dst
}

func (e Expr) Columns(dst map[string]bool) {
	if e.Op == OpEq {
		dst[e.Col] = true
		return
	}
	for _, s := range e.Subs {
		s.Columns(dst)
	}
}

// Sat reports whether the row satisfies the expression.
func Sat(r Row, e Expr) bool {
	switch e.Op {
	case OpEq:
		v, ok := r[e.Col]
		return ok && v == e.Val
	case OpNot:
		return !Sat(r, e.Subs[0])
	case OpAnd:
		for _, s := range e.Subs {
			if !Sat(r, s) {
				return false
			}
		}
		return true
	case OpOr:
		for _, s := range e.Subs {
			if Sat(r, s) {
				return true
			}
		}
		return false
	}
	panic("model: bad op")
}

// Data is a dataset with a few derived facts.
type Data struct {
	Rows []Row
	cols map[string]map[string]int // column -> value -> count
}

func NewData(rows []Row) *Data {
	d := &Data{Rows: rows, cols: map[string]map[string]int{}}
	for _, r := range rows {
		for k, v := range r {
			m := d.cols[k]
			if m == nil {
				m = map[string]int{}
				d.cols[k] = m
			}
			m[v]++
		}
	}
	return d
}

func (d *Data) HasColumn(c string) bool { _, ok := d.cols[c]; return ok }

// Columns returns the sorted column names.
func (d *Data) Columns() []string {
	out := make([]string, 0, len(d.cols))
	for c := range d.cols {
		out = append(out, c)
	}
	sort.Strings(out)
	return out
}

// Values returns the sorted distinct values of a column.
func (d *Data) Values(c string) []string {
	m := d.cols[c]
	out := make([]string, 0, len(m))
	for v := range m {
		out = append(out, v)
	}
	sort.Strings(out)
	return out
}

func (d *Data) ValueCount(c, v string) int { return d.cols[c][v] }

func (d *Data) DistinctValues() int {
	n := 0
	for _, m := range d.cols {
		n += len(m)
	}
	return n
}

// Rejects reports whether a query over (e, groupBy) must be answered with an
// error: some tested or grouped column occurs in no row.
func (d *Data) Rejects(e Expr, groupBy []string) bool {
	cols := map[string]bool{}
	e.Columns(cols)
	for c := range cols {
		if !d.HasColumn(c) {
			return true
		}
	}
	for _, c := range groupBy {
		if !d.HasColumn(c) {
			return true
		}
	}
	return false
}

func (d *Data) Count(e Expr) uint64 {
	var n uint64
	for _, r := range d.Rows {
		if Sat(r, e) {
			n++
		}
	}
	return n
}

// Group is one result group.
type Group struct {
	Cols  []string
	Vals  []string
	Count uint64
}

// Result is what a query must return.
type Result struct {
	Count  uint64
	Groups []Group
}

// Query evaluates count and groups in one pass.
func (d *Data) Query(e Expr, groupBy []string) Result {
	var res Result
	type acc struct {
		vals []string
		n    uint64
	}
	groups := map[string]*acc{}
	var key strings.Builder
	for _, r := range d.Rows {
		if !Sat(r, e) {
			continue
		}
		res.Count++
		if len(groupBy) == 0 {
			continue
		}
		key.Reset()
		vals := make([]string, 0, len(groupBy))
		ok := true
		for _, c := range groupBy {
			v, has := r[c]
			if !has {
				ok = false
				break
			}
			vals = append(vals, v)
			fmt.Fprintf(&key, "%d:%s|", len(v), v)
		}
		if !ok {
			continue
		}
		k := key.String()
		a := groups[k]
		if a == nil {
			a = &acc{vals: vals}
			groups[k] = a
		}
		a.n++
	}
	for _, a := range groups {
		res.Groups = append(res.Groups, Group{Cols: append([]string(nil), groupBy...), Vals: a.vals, Count: a.n})
	}
	sort.Slice(res.Groups, func(i, j int) bool { return lessTuple(res.Groups[i].Vals, res.Groups[j].Vals) })
	return res
}

func lessTuple(a, b []string) bool {
	for i := range a {
		if a[i] != b[i] {
			return a[i] < b[i] // byte-wise
		}
	}
	return false
}

// LessTuple is exported for internal-consistency checks on results.
func LessTuple(a, b []string) bool { return lessTuple(a, b) }

// SchemaCol mirrors the observable schema.
type SchemaCol struct {
	Name   string
	Values []string
}

func (d *Data) Schema() []SchemaCol {
	var out []SchemaCol
	for _, c := range d.Columns() {
		out = append(out, SchemaCol{Name: c, Values: d.Values(c)})
	}
	return out
}

// DiffResult compares an observed result (already converted) with the model's.
func DiffResult(got, want Result) error {
	if got.Count != want.Count {
		return fmt.Errorf("count: got %d want %d", got.Count, want.Count)
	}
	if len(got.Groups) != len(want.Groups) {
		return fmt.Errorf("groups: got %d groups want %d (got %s want %s)", len(got.Groups), len(want.Groups), fmtGroups(got.Groups, 6), fmtGroups(want.Groups, 6))
	}
	for i := range want.Groups {
		g, w := got.Groups[i], want.Groups[i]
		if len(g.Cols) != len(w.Cols) || len(g.Vals) != len(w.Vals) {
			return fmt.Errorf("group %d: got %d fields want %d (got %+q want %+q)", i, len(g.Vals), len(w.Vals), g, w)
		}
		for j := range w.Cols {
			if g.Cols[j] != w.Cols[j] {
				return fmt.Errorf("group %d field %d: column got %+q want %+q", i, j, g.Cols[j], w.Cols[j])
			}
			if g.Vals[j] != w.Vals[j] {
				return fmt.Errorf("group %d field %d (%+q): value got %+q want %+q", i, j, w.Cols[j], g.Vals[j], w.Vals[j])
			}
		}
		if g.Count != w.Count {
			return fmt.Errorf("group %d %+q: count got %d want %d", i, w.Vals, g.Count, w.Count)
		}
	}
	return nil
}

func fmtGroups(gs []Group, max int) string {
	var b strings.Builder
	b.WriteString("[")
	for i, g := range gs {
		if i == max {
			b.WriteString(" …")
			break
		}
		fmt.Fprintf(&b, " %+q:%d", g.Vals, g.Count)
	}
	b.WriteString(" ]")
	return b.String()
}

// ConsistentGroups checks properties of a group list that need no model:
// strictly ascending tuples (hence no duplicates), no zero counts, every group
// names its columns in list order, sum of counts bounded by the total when no
// column is repeated... (a row falls in at most one group, always).
func ConsistentGroups(r Result, groupBy []string) error {
	var sum uint64
	for i, g := range r.Groups {
		if len(g.Cols) != len(groupBy) || len(g.Vals) != len(groupBy) {
			return fmt.Errorf("group %d has %d fields, group-by list has %d", i, len(g.Vals), len(groupBy))
		}
		for j := range groupBy {
			if g.Cols[j] != groupBy[j] {
				return fmt.Errorf("group %d field %d names column %+q, list says %+q", i, j, g.Cols[j], groupBy[j])
			}
		}
		if g.Count == 0 {
			return fmt.Errorf("group %d %+q has count 0", i, g.Vals)
		}
		if i > 0 && !lessTuple(r.Groups[i-1].Vals, g.Vals) {
			return fmt.Errorf("groups %d,%d not strictly ascending: %+q then %+q", i-1, i, r.Groups[i-1].Vals, g.Vals)
		}
		sum += g.Count
	}
	if sum > r.Count {
		return fmt.Errorf("group counts sum to %d > total count %d", sum, r.Count)
	}
	if len(groupBy) == 0 && len(r.Groups) != 0 {
		return fmt.Errorf("empty group-by list but %d groups", len(r.Groups))
	}
	return nil
}
