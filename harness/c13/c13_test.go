// C13 — gRPC service answers each query of a batch like the library, in order.
package c13

import (
	"context"
	"database/sql"
	"fmt"
	"os"
	"reflect"
	"strings"
	"syscall"
	"testing"
	"time"

	"github.com/akrennmair/updog"
	_ "github.com/akrennmair/updog/driver"
	"github.com/akrennmair/updog/internal/convert"
	"github.com/akrennmair/updog/internal/queryparser"
	pb "github.com/akrennmair/updog/proto/updog/v1"
	"github.com/akrennmair/updog/verifharness/evid"
	"github.com/akrennmair/updog/verifharness/fix"
	"github.com/akrennmair/updog/verifharness/gen"
	"github.com/akrennmair/updog/verifharness/model"
	"pgregory.net/rapid"
)

const prop = "C13"

func TestMain(m *testing.M) { fix.Main(m) }

type Q struct {
	ID      int32
	Expr    model.Expr
	GroupBy []string
}

type Case struct {
	Data       gen.DataSpec
	Writer     int
	ServerArgs []string
	Batches    [][]Q
	DriverQs   []Q // run through database/sql with grpc:// and file: DSNs
	// Flood: this many failing batches are sent first (a server must not wear
	// out: leaked slots, counters, goroutines); then the batches follow.
	Flood int
	// Churn: this many rounds of sql.Open(grpc://...) / Query / Close in each
	// of two goroutines at the same time, on the address the other handles use
	Churn int
	// Restart: the server is killed, a bound query is issued on an existing
	// grpc handle while nothing listens, and a new server is started on the
	// same address 300 ms later.  The query may fail; if it returns rows they
	// must be the right ones, and afterwards the handle must work again.
	Restart bool
}

func (c *Case) Summary() string {
	var b strings.Builder
	fmt.Fprintf(&b, "%s writer=%s server%v batches[%d]:", c.Data.Summary(), fix.WriterName[c.Writer], c.ServerArgs, len(c.Batches))
	for i, bt := range c.Batches {
		if i >= 5 {
			b.WriteString(" …")
			break
		}
		b.WriteString(" [")
		for j, q := range bt {
			if j >= 4 {
				b.WriteString(" …")
				break
			}
			fmt.Fprintf(&b, " id%d:%s/%q;", q.ID, q.Expr.String(), q.GroupBy)
		}
		b.WriteString(" ]")
	}
	fmt.Fprintf(&b, " driver-queries[%d] error-flood=%d handle-churn=%d server-restart=%v", len(c.DriverQs), c.Flood, c.Churn, c.Restart)
	return b.String()
}

type facts struct{ multi, grouped, invalid bool }

func oracle(c *Case) (facts, error) {
	var f facts
	rows := c.Data.Rows()
	d := model.NewData(rows)
	dir := fix.CaseDir()
	defer os.RemoveAll(dir)
	path, _, err := fix.Build(dir, rows, c.Writer)
	if err != nil {
		return f, fmt.Errorf("INFRA: %v", err)
	}
	srvPath, err := fix.CopyFile(dir, path)
	if err != nil {
		return f, fmt.Errorf("INFRA: %v", err)
	}
	srv, err := fix.StartServer(srvPath, c.ServerArgs...)
	if err != nil {
		return f, fmt.Errorf("INFRA: cannot start server: %v", err)
	}
	defer srv.Stop()
	// the library on the same index file content
	lib, _, err := fix.Open(path, fix.OpenCfg{CacheCap: -1})
	if err != nil {
		return f, fmt.Errorf("INFRA: %v", err)
	}
	defer fix.Safe(lib.Close)
	for i := 0; i < c.Flood; i++ {
		bad := &pb.QueryRequest{Queries: []*pb.Query{fix.PBQuery(model.Eq("no_such_column", "x"), nil, 0)}}
		if i%3 == 1 && len(d.Columns()) > 0 {
			bad.Queries = append([]*pb.Query{fix.PBQuery(model.Not(model.Eq(d.Columns()[0], "q")), nil, 0)}, bad.Queries...)
		}
		if _, err := srv.Query(bad, 20*time.Second); err == nil {
			return f, fmt.Errorf("flood batch %d with an unknown column was answered without error", i)
		} else if !srv.Alive() {
			return f, fmt.Errorf("server died during the error flood (batch %d): %s", i, clip(srv.Output()))
		} else if strings.Contains(err.Error(), "DeadlineExceeded") {
			return f, fmt.Errorf("after %d failing batches the server no longer answers (next failing batch timed out): %v", i, err)
		}
	}
	for bi, batch := range c.Batches {
		req := &pb.QueryRequest{}
		anyInvalid := false
		for _, q := range batch {
			req.Queries = append(req.Queries, fix.PBQuery(q.Expr, q.GroupBy, q.ID))
			if d.Rejects(q.Expr, q.GroupBy) {
				anyInvalid = true
			}
			if len(q.GroupBy) > 0 {
				f.grouped = true
			}
		}
		if len(batch) >= 2 {
			f.multi = true
		}
		resp, rerr := srv.Query(req, 60*time.Second)
		if rerr != nil && c.Flood > 0 && strings.Contains(rerr.Error(), "DeadlineExceeded") {
			return f, fmt.Errorf("batch %d after a flood of %d failing batches: the server no longer answers: %v", bi, c.Flood, rerr)
		}
		if !srv.Alive() {
			return f, fmt.Errorf("batch %d: server died (%s): %s", bi, srv.ExitInfo(), clip(srv.Output()))
		}
		if anyInvalid {
			f.invalid = true
			if rerr == nil {
				return f, fmt.Errorf("batch %d contains an invalid query but the call succeeded with %d results (partial response?)", bi, len(resp.GetResults()))
			}
			if resp != nil {
				return f, fmt.Errorf("batch %d: error together with a response", bi)
			}
			continue
		}
		if rerr != nil {
			return f, fmt.Errorf("batch %d (all members valid): RPC error %v", bi, rerr)
		}
		if len(resp.Results) != len(batch) {
			return f, fmt.Errorf("batch %d: %d results for %d queries", bi, len(resp.Results), len(batch))
		}
		for i, q := range batch {
			r := resp.Results[i]
			wantID := q.ID
			if wantID == 0 {
				wantID = int32(i + 1)
			}
			if r.QueryId != wantID {
				return f, fmt.Errorf("batch %d result %d: query id %d, want %d (request id %d)", bi, i, r.QueryId, wantID, q.ID)
			}
			got := fix.FromPBResult(r)
			if !hasEmptyNode(q.Expr) { // zero-operand nodes: the library alone is the reference (see below)
				if err := model.DiffResult(got, d.Query(q.Expr, q.GroupBy)); err != nil {
					return f, fmt.Errorf("batch %d result %d (%s GROUP BY %q): %v", bi, i, q.Expr.String(), q.GroupBy, err)
				}
			}
			// and literally what the library returns on the same file
			lres, lerr := fix.Exec(lib, fix.NewQuery(q.Expr, q.GroupBy))
			if lerr != nil {
				return f, fmt.Errorf("batch %d result %d: library error %v", bi, i, lerr)
			}
			if !reflect.DeepEqual(got, fix.FromResult(lres)) {
				return f, fmt.Errorf("batch %d result %d: server %+v, library %+v", bi, i, got, fix.FromResult(lres))
			}
		}
	}
	if len(c.DriverQs) > 0 {
		gdb, err := sql.Open("updog", "grpc://"+srv.Addr)
		if err != nil {
			return f, fmt.Errorf("sql.Open grpc: %v", err)
		}
		defer gdb.Close()
		if len(c.DriverQs)%2 == 1 {
			// no idle connections: every query's connection is closed after use
			// (whatever the handle shares between its connections must survive that)
			gdb.SetMaxIdleConns(0)
		}
		fdb, err := sql.Open("updog", "file:"+path)
		if err != nil {
			return f, fmt.Errorf("sql.Open file: %v", err)
		}
		defer fdb.Close()
		for i, q := range c.DriverQs {
			if hasEmptyNode(q.Expr) {
				continue // zero-operand nodes have no text form
			}
			text := queryparser.QueryToString(&pb.Query{Expr: fix.ToPB(q.Expr), GroupBy: q.GroupBy})
			run := func(db *sql.DB) (*fix.SQLRows, error) {
				var out *fix.SQLRows
				err := fix.Safe(func() error {
					r, e := db.Query(text)
					if e != nil {
						return e
					}
					out, e = fix.ScanAll(r)
					return e
				})
				return out, err
			}
			gr, gerr := run(gdb)
			fr, ferr := run(fdb)
			if fix.IsPanic(gerr) || fix.IsPanic(ferr) {
				return f, fmt.Errorf("driver query %d %+q: grpc err=%v file err=%v", i, text, gerr, ferr)
			}
			if (gerr == nil) != (ferr == nil) {
				return f, fmt.Errorf("driver query %d %+q: grpc DSN err=%v, file DSN err=%v", i, text, gerr, ferr)
			}
			if gerr != nil {
				if !d.Rejects(q.Expr, q.GroupBy) {
					return f, fmt.Errorf("driver query %d %+q: unexpected error %v", i, text, gerr)
				}
				continue
			}
			if fmt.Sprint(gr.Cols, gr.Types, gr.Rows) != fmt.Sprint(fr.Cols, fr.Types, fr.Rows) {
				return f, fmt.Errorf("driver query %d %+q: grpc DSN returns %v %v, file DSN returns %v %v", i, text, gr.Cols, gr.Rows, fr.Cols, fr.Rows)
			}
			if err := fix.CheckRows(gr, q.GroupBy, d.Query(q.Expr, q.GroupBy)); err != nil {
				return f, fmt.Errorf("driver query %d %+q via grpc: %v", i, text, err)
			}
		}
	}
	if c.Churn > 0 && len(c.DriverQs) > 0 {
		// short-lived database handles on one address, two at a time: whatever the
		// driver shares between handles of an address must not be torn down under
		// a handle that is still (or just) in use
		var q *Q
		for i := range c.DriverQs {
			if !hasEmptyNode(c.DriverQs[i].Expr) && !d.Rejects(c.DriverQs[i].Expr, c.DriverQs[i].GroupBy) {
				q = &c.DriverQs[i]
				break
			}
		}
		if q != nil {
			text := queryparser.QueryToString(&pb.Query{Expr: fix.ToPB(q.Expr), GroupBy: q.GroupBy})
			want := d.Query(q.Expr, q.GroupBy)
			errs := make(chan error, 2)
			for g := 0; g < 2; g++ {
				go func(g int) {
					errs <- fix.Safe(func() error {
						for r := 0; r < c.Churn; r++ {
							db, err := sql.Open("updog", "grpc://"+srv.Addr)
							if err != nil {
								return fmt.Errorf("goroutine %d round %d: sql.Open grpc: %v", g, r, err)
							}
							rows, err := db.Query(text)
							if err != nil {
								db.Close()
								return fmt.Errorf("goroutine %d round %d: short-lived grpc handle: query %+q fails: %v (the file data source answers it)", g, r, text, err)
							}
							got, err := fix.ScanAll(rows)
							db.Close()
							if err != nil {
								return fmt.Errorf("goroutine %d round %d: %v", g, r, err)
							}
							if err := fix.CheckRows(got, q.GroupBy, want); err != nil {
								return fmt.Errorf("goroutine %d round %d: short-lived grpc handle: %v", g, r, err)
							}
						}
						return nil
					})
				}(g)
			}
			for g := 0; g < 2; g++ {
				if err := <-errs; err != nil {
					return f, err
				}
			}
		}
	}
	if !srv.Alive() {
		return f, fmt.Errorf("server died: %s", clip(srv.Output()))
	}
	if len(c.DriverQs) > 0 && len(d.Columns()) > 0 {
		// bound arguments of several Go types: the grpc data source, directly and
		// through a prepared statement, must answer exactly like the file data
		// source (whatever text a type is bound as, it is the same text)
		col := d.Columns()[0]
		val := d.Values(col)[0]
		text := queryparser.QueryToString(&pb.Query{Expr: &pb.Query_Expression{Value: &pb.Query_Expression_Eq{Eq: &pb.Query_Expression_Equal{Column: col, Placeholder: 1}}}})
		gdb, err := sql.Open("updog", "grpc://"+srv.Addr)
		if err != nil {
			return f, fmt.Errorf("sql.Open grpc: %v", err)
		}
		fdb, err := sql.Open("updog", "file:"+path)
		if err != nil {
			gdb.Close()
			return f, fmt.Errorf("sql.Open file: %v", err)
		}
		ask := func(db *sql.DB, prepared bool, arg any) string {
			var out string
			err := fix.Safe(func() error {
				var r *sql.Rows
				var e error
				if prepared {
					st, pe := db.Prepare(text)
					if pe != nil {
						return pe
					}
					defer st.Close()
					r, e = st.Query(arg)
				} else {
					r, e = db.Query(text, arg)
				}
				if e != nil {
					return e
				}
				got, e := fix.ScanAll(r)
				if e != nil {
					return e
				}
				out = fmt.Sprint(got.Cols, got.Rows)
				return nil
			})
			if fix.IsPanic(err) {
				return "PANIC: " + err.Error()
			}
			if err != nil {
				return "error"
			}
			return out
		}
		var firstErr error
		for _, arg := range []any{val, []byte(val), int64(7), int32(1), true, 1.5, float32(0.1), 1e6, uint16(9)} {
			ref := ask(fdb, false, arg)
			for _, v := range []struct {
				name string
				db   *sql.DB
				prep bool
			}{{"file data source, prepared", fdb, true}, {"grpc data source, direct", gdb, false}, {"grpc data source, prepared", gdb, true}} {
				if got := ask(v.db, v.prep, arg); got != ref && firstErr == nil {
					firstErr = fmt.Errorf("query %+q with the argument %T(%v): %s returns %s, the file data source (direct) returns %s", text, arg, arg, v.name, clip(got), clip(ref))
				}
			}
		}
		gdb.Close()
		fdb.Close()
		if firstErr != nil {
			return f, firstErr
		}
	}
	if c.Restart && len(d.Columns()) > 0 {
		col := d.Columns()[0]
		val := d.Values(col)[0]
		want := d.Query(model.Eq(col, val), nil)
		text := queryparser.QueryToString(&pb.Query{Expr: &pb.Query_Expression{Value: &pb.Query_Expression_Eq{Eq: &pb.Query_Expression_Equal{Column: col, Placeholder: 1}}}})
		gdb, err := sql.Open("updog", "grpc://"+srv.Addr)
		if err != nil {
			return f, fmt.Errorf("sql.Open grpc: %v", err)
		}
		defer gdb.Close()
		ask := func() (*fix.SQLRows, error) {
			var out *fix.SQLRows
			err := fix.Safe(func() error {
				r, e := gdb.Query(text, val)
				if e != nil {
					return e
				}
				out, e = fix.ScanAll(r)
				return e
			})
			return out, err
		}
		if got, err := ask(); err != nil {
			return f, fmt.Errorf("bound query %+q [%+q] via grpc before the restart: %v", text, val, err)
		} else if err := fix.CheckRows(got, nil, want); err != nil {
			return f, fmt.Errorf("bound query %+q [%+q] via grpc before the restart: %v", text, val, err)
		}
		// a flood of rejected queries through the driver: what a failed call
		// holds (connections, descriptors) has to be given back
		{
			badText := "no_such_column_zz = $1"
			fire := func(n int) error {
				for i := 0; i < n; i++ {
					// the call runs in a goroutine of its own: a driver call that
					// never returns cannot be interrupted through database/sql
					ctx, cancel := context.WithTimeout(context.Background(), 20*time.Second)
					res := make(chan error, 1)
					go func() {
						res <- fix.Safe(func() error {
							r, e := gdb.QueryContext(ctx, badText, val)
							if e == nil {
								r.Close()
								return nil
							}
							return e
						})
					}()
					var err error
					timedOut := false
					select {
					case err = <-res:
						timedOut = ctx.Err() == context.DeadlineExceeded // before cancel: afterwards Err is always set
					case <-time.After(25 * time.Second):
						timedOut, err = true, fmt.Errorf("the call has not returned after 25 s")
					}
					cancel()
					if err == nil {
						return fmt.Errorf("query %+q via grpc on an unknown column returned rows", badText)
					}
					if timedOut || strings.Contains(err.Error(), "DeadlineExceeded") {
						return fmt.Errorf("rejected query %d through the grpc database handle: no answer within 20 s (the server, alive=%v, no longer answers after failing queries): %v", i, srv.Alive(), err)
					}
					if fix.IsPanic(err) {
						return err
					}
				}
				return nil
			}
			if err := fire(30); err != nil {
				return f, err
			}
			before := fix.FDCount(0)
			if err := fire(300); err != nil {
				return f, err
			}
			if after := fix.FDCount(0); before >= 0 && after > before+40 {
				return f, fmt.Errorf("300 rejected queries through one grpc database handle left %d more open descriptors in the client process (%d -> %d): what a failed call holds is not given back", after-before, before, after)
			}
			evid.Note("driver_rejected_query_floods", 1)
			if got, err := ask(); err != nil {
				return f, fmt.Errorf("bound query %+q [%+q] via grpc after 330 rejected queries: %v", text, val, err)
			} else if err := fix.CheckRows(got, nil, want); err != nil {
				return f, fmt.Errorf("bound query %+q [%+q] via grpc after 330 rejected queries: %v", text, val, err)
			}
		}
		// a termination request arrives while a long batch is being answered:
		// the call may fail, but a response that does arrive has to be right
		{
			heavy := &pb.QueryRequest{}
			hq := fix.PBQuery(model.Eq(col, val), nil, 0)
			nheavy := 40000
			if per := len(col) + len(val) + 16; nheavy*per > 2<<20 {
				nheavy = (2 << 20) / per // stay below the transport's 4 MiB message limit
			}
			for i := 0; i < nheavy; i++ {
				heavy.Queries = append(heavy.Queries, hq)
			}
			type hres struct {
				resp *pb.QueryResponse
				err  error
			}
			hd := make(chan hres, 1)
			go func() { r, e := srv.Query(heavy, 60*time.Second); hd <- hres{r, e} }()
			time.Sleep(time.Duration(10+len(rows)%50) * time.Millisecond)
			srv.Cmd.Process.Signal(syscall.SIGTERM)
			r := <-hd
			if r.err == nil {
				evid.Note("batches_answered_despite_termination_request", 1)
				if len(r.resp.Results) != len(heavy.Queries) {
					return f, fmt.Errorf("batch of %d queries overlapping a termination request (SIGTERM): response holds %d results", len(heavy.Queries), len(r.resp.Results))
				}
				for i, res := range r.resp.Results {
					if res.TotalCount != uint64(want.Count) {
						return f, fmt.Errorf("batch of %d x (%s = %+q) overlapping a termination request (SIGTERM): the call succeeded but result %d has count %d, the library says %d", len(heavy.Queries), col, val, i, res.TotalCount, want.Count)
					}
				}
			} else {
				evid.Note("batches_failed_by_termination_request", 1)
			}
		}
		addr := srv.Addr
		srv.Stop()
		type res struct {
			rows *fix.SQLRows
			err  error
		}
		done := make(chan res, 1)
		go func() { r, e := ask(); done <- res{r, e} }()
		time.Sleep(300 * time.Millisecond)
		srv2, serr := fix.StartServer(srvPath, append(append([]string(nil), c.ServerArgs...), "listen:"+addr)...)
		if serr != nil {
			evid.Note("restart_skipped_address_not_available_again", 1)
			return f, nil
		}
		defer srv2.Stop()
		select {
		case r := <-done:
			if fix.IsPanic(r.err) {
				return f, fmt.Errorf("query issued while the server was down: %v", r.err)
			}
			if r.err == nil {
				if err := fix.CheckRows(r.rows, nil, want); err != nil {
					return f, fmt.Errorf("bound query %+q [%+q] issued while the server was down (it came back 300 ms later) returned rows without an error, and they are wrong: %v", text, val, err)
				}
			}
		case <-time.After(20 * time.Second):
			evid.Note("restart_query_still_pending_after_20s", 1)
		}
		// the handle recovers (the first attempts may still see the old connection)
		var last error
		for i := 0; i < 30; i++ {
			got, err := ask()
			if err == nil {
				if cerr := fix.CheckRows(got, nil, want); cerr != nil {
					return f, fmt.Errorf("bound query %+q [%+q] after the server came back: %v", text, val, cerr)
				}
				last = nil
				break
			}
			last = err
			time.Sleep(100 * time.Millisecond)
		}
		if last != nil {
			// how quickly a client reconnects is the transport's back-off policy
			evid.Note("restart_handle_not_recovered_within_3s", 1)
		}
	}
	return f, nil
}

// hasEmptyNode reports whether the tree contains an AND/OR without operands
// (the library accepts those; what they mean is whatever the library says).
func hasEmptyNode(e model.Expr) bool {
	if (e.Op == model.OpAnd || e.Op == model.OpOr) && len(e.Subs) == 0 {
		return true
	}
	for _, s := range e.Subs {
		if hasEmptyNode(s) {
			return true
		}
	}
	return false
}

func clip(s string) string {
	if len(s) > 1500 {
		return s[len(s)-1500:]
	}
	return s
}

func run(t interface{ Fatalf(string, ...any) }, c *Case) {
	f, err := oracle(c)
	if err != nil && strings.HasPrefix(err.Error(), "INFRA:") {
		panic(err.Error())
	}
	cl := []string{fmt.Sprintf("server%v", c.ServerArgs)}
	if f.invalid {
		cl = append(cl, "batch-with-invalid-member")
	}
	ids := map[string]bool{}
	for _, b := range c.Batches {
		seen := map[int32]bool{}
		for _, q := range b {
			switch {
			case q.ID == 0:
				ids["id:zero"] = true
			case q.ID < 0:
				ids["id:negative"] = true
			default:
				ids["id:positive"] = true
			}
			if seen[q.ID] && q.ID != 0 {
				ids["id:duplicate"] = true
			}
			seen[q.ID] = true
		}
		if len(b) == 0 {
			ids["empty-batch"] = true
		}
	}
	for k := range ids {
		cl = append(cl, k)
	}
	if len(c.DriverQs) > 0 {
		cl = append(cl, "driver-grpc-vs-file")
	}
	evid.Note("batches", int64(len(c.Batches)))
	evid.Case(f.multi && f.grouped, c.Summary(), cl...)
	if err != nil {
		fix.Fail(t, prop, "batch", c, c.Summary(), err)
	}
}

func drawQ(t *rapid.T, pool *gen.LeafPool, recipe bool, invalid bool) Q {
	q := Q{ID: int32(rapid.SampledFrom([]int{0, 0, 0, 1, 2, 3, 7, 7, -1, 2147483647, -2147483648}).Draw(t, "id"))}
	eo := gen.ExprOpts{MaxDepth: 4}
	unk := 0
	if invalid {
		if rapid.Bool().Draw(t, "invalid-in-expr") {
			eo.UnknownPct = 40
		} else {
			unk = 60
		}
	}
	q.Expr = gen.UTF8Expr(pool.Expr(t, eo))
	if !invalid && (q.Expr.Op == model.OpAnd || q.Expr.Op == model.OpOr) && rapid.IntRange(0, 7).Draw(t, "emptynode") == 0 {
		// a hand-built tree: an AND/OR without operands as one of the operands
		// (directly nested in a node of the same or the other kind), or below NOT
		empty := model.Expr{Op: rapid.SampledFrom([]int{model.OpAnd, model.OpOr}).Draw(t, "emptyop")}
		if rapid.Bool().Draw(t, "emptynot") {
			empty = model.Not(empty)
		}
		subs := append(append([]model.Expr(nil), q.Expr.Subs...), empty)
		q.Expr = model.Expr{Op: q.Expr.Op, Subs: subs}
	}
	if invalid && eo.UnknownPct > 0 && !pool.D.Rejects(q.Expr, nil) {
		q.Expr = model.And(q.Expr, model.Eq("no_such_column", "x"))
	}
	if rapid.Bool().Draw(t, "gb") || unk > 0 {
		max := 3
		if recipe {
			max = 1
		}
		q.GroupBy = pool.GroupBy(t, max, unk)
		if unk > 0 && !pool.D.Rejects(q.Expr, q.GroupBy) {
			q.GroupBy = append(q.GroupBy, "no_such_column")
		}
	}
	return q
}

func drawCase(t *rapid.T, maxBatches int) *Case {
	c := &Case{Writer: rapid.IntRange(0, fix.NWriters-1).Draw(t, "writer")}
	c.Data = *gen.Dataset(t, gen.DataOpts{MaxRows: 30, IdentCols: true, MaxRecipeN: 3000, RecipeProb: 20})
	gen.UTF8Spec(&c.Data)
	c.ServerArgs = rapid.SampledFrom([][]string{{}, {"-c=false"}, {"-p"}, {"-c=false", "-p"}, {"-s", "2000"}, {"env:GOMAXPROCS=1"}, {"-p", "env:GOMAXPROCS=2"}, {"-c=false", "env:GOMAXPROCS=1"}}).Draw(t, "sargs")
	d := model.NewData(c.Data.Rows())
	pool := gen.NewLeafPool(d)
	poolB := gen.NewLeafPool(d).AllowEmptyName() // batches are objects on the wire: an empty column name can be said
	nb := rapid.IntRange(1, maxBatches).Draw(t, "nbatches")
	for b := 0; b < nb; b++ {
		n := rapid.IntRange(0, 8).Draw(t, "nq")
		if rapid.IntRange(0, 4).Draw(t, "bigbatch") == 0 {
			n = rapid.IntRange(9, 40).Draw(t, "nqbig")
		}
		invalidAt := -1
		if n > 0 && rapid.IntRange(0, 4).Draw(t, "hasinvalid") == 0 {
			invalidAt = rapid.IntRange(0, n-1).Draw(t, "invalidAt")
		}
		var batch []Q
		for i := 0; i < n; i++ {
			q := drawQ(t, poolB, c.Data.Recipe != nil, i == invalidAt)
			if i > 0 && i != invalidAt && rapid.IntRange(0, 3).Draw(t, "twin") == 0 {
				// same expression as an earlier member, different group-by / id
				// (members of a batch must not be confused with each other)
				twin := batch[rapid.IntRange(0, i-1).Draw(t, "twinof")]
				if !d.Rejects(twin.Expr, nil) {
					q.Expr = twin.Expr
					if reflect.DeepEqual(q.GroupBy, twin.GroupBy) && len(pool.Cols) > 0 {
						q.GroupBy = append(append([]string(nil), twin.GroupBy...), pool.Cols[0])
						if c.Data.Recipe != nil {
							q.GroupBy = q.GroupBy[len(q.GroupBy)-1:]
						}
					}
				}
			}
			batch = append(batch, q)
		}
		c.Batches = append(c.Batches, batch)
	}
	if rapid.IntRange(0, 9).Draw(t, "flood?") == 0 {
		c.Flood = rapid.SampledFrom([]int{70, 130, 140, 300, 520}).Draw(t, "flood")
	}
	nd := rapid.IntRange(0, 4).Draw(t, "ndriver")
	for i := 0; i < nd; i++ {
		c.DriverQs = append(c.DriverQs, drawQ(t, pool, c.Data.Recipe != nil, rapid.IntRange(0, 5).Draw(t, "dinv") == 0))
	}
	c.Restart = rapid.IntRange(0, 5).Draw(t, "restart") == 0
	if nd > 0 && rapid.IntRange(0, 5).Draw(t, "churn?") == 0 {
		c.Churn = rapid.SampledFrom([]int{20, 60, 150}).Draw(t, "churn")
	}
	return c
}

// ---------------------------------------------------------------- conversion round trips (in-process)

type ConvCase struct {
	Expr    model.Expr
	GroupBy []string
	Result  model.Result
	QID     int32
}

func (c *ConvCase) Summary() string {
	return fmt.Sprintf("convert: query %s GROUP BY %+q; result count=%d groups=%d qid=%d", c.Expr.String(), c.GroupBy, c.Result.Count, len(c.Result.Groups), c.QID)
}

func convOracle(c *ConvCase) error {
	return fix.Safe(func() error {
		// query: protobuf -> library must preserve structure
		q := convert.ToQuery(fix.PBQuery(c.Expr, c.GroupBy, 5))
		want := fix.NewQuery(c.Expr, c.GroupBy)
		if !reflect.DeepEqual(q.Expr, want.Expr) {
			return fmt.Errorf("ToQuery changed the expression: got %s want %s", q.Expr.String(), want.Expr.String())
		}
		if len(q.GroupBy) != len(want.GroupBy) || (len(want.GroupBy) > 0 && !reflect.DeepEqual(q.GroupBy, want.GroupBy)) {
			return fmt.Errorf("ToQuery changed the group-by list: got %q want %q", q.GroupBy, want.GroupBy)
		}
		// result: library -> protobuf -> library is lossless
		r := &updog.Result{Count: c.Result.Count}
		for _, g := range c.Result.Groups {
			rg := updog.ResultGroup{Count: g.Count}
			for i := range g.Cols {
				rg.Fields = append(rg.Fields, updog.ResultField{Column: g.Cols[i], Value: g.Vals[i]})
			}
			r.Groups = append(r.Groups, rg)
		}
		p := convert.ToProtobufResult(r, c.QID)
		if p.QueryId != c.QID || p.TotalCount != r.Count {
			return fmt.Errorf("ToProtobufResult: id %d count %d, want %d %d", p.QueryId, p.TotalCount, c.QID, r.Count)
		}
		back := convert.ToResult(p)
		if !reflect.DeepEqual(fix.FromResult(back), fix.FromResult(r)) {
			return fmt.Errorf("ToResult(ToProtobufResult(r)) != r: %+v vs %+v", back, r)
		}
		return nil
	})
}

func drawConv(t *rapid.T) *ConvCase {
	c := &ConvCase{QID: int32(rapid.IntRange(-5, 1000).Draw(t, "qid"))}
	d := model.NewData(gen.Explicit(t, gen.DataOpts{MaxRows: 6}).Rows())
	pool := gen.NewLeafPool(d)
	c.Expr = pool.Expr(t, gen.ExprOpts{MaxDepth: 5, UnknownPct: 5})
	c.GroupBy = pool.GroupBy(t, 4, 10)
	c.Result.Count = rapid.Uint64().Draw(t, "count")
	ng := rapid.IntRange(0, 5).Draw(t, "ngroups")
	nf := rapid.IntRange(0, 4).Draw(t, "nfields")
	for i := 0; i < ng; i++ {
		g := model.Group{Count: rapid.Uint64().Draw(t, "gcount")}
		for j := 0; j < nf; j++ {
			g.Cols = append(g.Cols, gen.ColName(false).Draw(t, "fc"))
			g.Vals = append(g.Vals, gen.Value().Draw(t, "fv"))
		}
		if rapid.IntRange(0, 2).Draw(t, "fieldcollide") == 0 {
			// two fields whose column+value concatenations are equal
			w := rapid.SampledFrom([]string{"k1x", "ab", "count1", "x\x00y", "a=b", "  "}).Draw(t, "cw")
			p1 := rapid.IntRange(0, len(w)).Draw(t, "cp1")
			p2 := rapid.IntRange(0, len(w)).Draw(t, "cp2")
			g.Cols = append(g.Cols, w[:p1], w[:p2])
			g.Vals = append(g.Vals, w[p1:], w[p2:])
		}
		c.Result.Groups = append(c.Result.Groups, g)
	}
	return c
}

func replay(cf *evid.CaseFile) error {
	if cf.Sub == "convert" {
		var c ConvCase
		if err := evid.Decode(cf.Gob, &c); err != nil {
			return err
		}
		return convOracle(&c)
	}
	var c Case
	if err := evid.Decode(cf.Gob, &c); err != nil {
		return err
	}
	_, err := oracle(&c)
	return err
}

func runConv(t interface{ Fatalf(string, ...any) }, c *ConvCase) {
	evid.Case(len(c.Result.Groups) > 0 && c.Expr.HasOperator(), c.Summary(), "convert")
	if err := convOracle(c); err != nil {
		fix.Fail(t, prop, "convert", c, c.Summary(), err)
	}
}

// bigResponses: results far larger than a typical response (tens to hundreds
// of KiB: one group per row of a unique column), through the raw RPC and
// through database/sql with both DSN kinds.
func bigResponses(t *testing.T) {
	for _, n := range []int{2500, 6000, 20000, 70001} {
		spec := gen.DataSpec{Recipe: &gen.Recipe{N: n, Cols: []gen.ColSpec{
			{Name: "u", Prefix: "row-", Kind: gen.KUnique}, {Name: "a", Kind: gen.KMod, K: 3, Prefix: "v"}}}}
		taut := model.Not(model.Eq("a", "none"))
		c := &Case{Data: spec, Writer: n % fix.NWriters,
			Batches:  [][]Q{{{Expr: taut, GroupBy: []string{"u"}}, {ID: 5, Expr: model.Eq("a", "v1"), GroupBy: []string{"u"}}}, {{Expr: taut, GroupBy: []string{"a", "u", "a"}}}},
			DriverQs: []Q{{Expr: taut, GroupBy: []string{"u"}}, {Expr: model.Eq("a", "v2"), GroupBy: []string{"u"}}}}
		run(t, c)
	}
}

// manyQueries: thousands of distinct valid queries on ONE server process,
// then the oldest ones again (whatever a server remembers per query is turned
// over several times).
func manyQueries(t *testing.T, n int, sargs []string) {
	spec := gen.DataSpec{Recipe: &gen.Recipe{N: 700, Cols: []gen.ColSpec{
		{Name: "u", Prefix: "r", Kind: gen.KUnique}, {Name: "g", Kind: gen.KMod, K: 3, Prefix: "p"}}}}
	c := &Case{Data: spec, ServerArgs: sargs}
	mk := func(i int) Q {
		q := Q{ID: int32(i % 5), Expr: model.And(model.Eq("u", fmt.Sprintf("r%d", i%700)), model.Not(model.Eq("g", fmt.Sprintf("x%d", i))))}
		if i%11 == 0 {
			q.GroupBy = []string{"g"}
		}
		return q
	}
	var batch []Q
	for i := 0; i < n; i++ {
		batch = append(batch, mk(i))
		if len(batch) == 50 {
			c.Batches = append(c.Batches, batch)
			batch = nil
		}
	}
	for i := 0; i < 100; i++ {
		batch = append(batch, mk(i))
	}
	c.Batches = append(c.Batches, batch)
	run(t, c)
}

func TestQuick(t *testing.T) {
	fix.Pinned(t, prop, replay)
	bigResponses(t)
	manyQueries(t, 2600, nil)
	fix.Check(t, "convert", 3000, func(rt *rapid.T) { runConv(rt, drawConv(rt)) })
	fix.Check(t, "batch", 150, func(rt *rapid.T) { run(rt, drawCase(rt, 25)) })
}

func TestThorough(t *testing.T) {
	if shard, _ := evid.Shard(); shard == 0 {
		fix.Pinned(t, prop, replay)
		bigResponses(t)
		manyQueries(t, 2600, nil)
		manyQueries(t, 9000, []string{"-p"})
	}
	fix.Check(t, "convert", 20000, func(rt *rapid.T) { runConv(rt, drawConv(rt)) })
	fix.Check(t, "batch", 400, func(rt *rapid.T) { run(rt, drawCase(rt, 60)) })
}

func TestReplay(t *testing.T) {
	cf := fix.ReplayFile(t)
	if err := replay(cf); err != nil {
		t.Fatalf("replay of %s/%s fails: %v", cf.Property, cf.Sub, err)
	}
}
