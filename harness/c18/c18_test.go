// C18 — concurrent AddRow calls lose, duplicate and mix nothing.
//
// Built with -race, GORACE=halt_on_error=1: a race kills the process and the
// driver promotes the in-flight case file.
package c18

import (
	"fmt"
	"os"
	"runtime"
	"sort"
	"strings"
	"sync"
	"sync/atomic"
	"testing"

	"github.com/akrennmair/updog"
	"github.com/akrennmair/updog/verifharness/evid"
	"github.com/akrennmair/updog/verifharness/fix"
	"github.com/akrennmair/updog/verifharness/model"
	"go.etcd.io/bbolt"
	"pgregory.net/rapid"
)

const prop = "C18"

func TestMain(m *testing.M) { fix.Main(m) }

type Case struct {
	Big        bool
	Goroutines int
	Total      int
	Cols       int // shared columns per row (1..4)
	K          []int
	Split      int // 0 = round-robin assignment of rows to goroutines, 1 = contiguous blocks
	// ReuseMap: every goroutine passes ONE map object to AddRow, refilled per
	// row (AddRow must not keep a reference to the caller's map).
	ReuseMap bool
	// FlushDuring: (in-memory writer) a further goroutine writes the writer to
	// a second database while rows are still being added: that snapshot must be
	// a consistent prefix - exactly the rows with id below its row count.
	FlushDuring bool
	// Empty: every Empty-th row has no value at all (an empty map, or nil for
	// every other one of them); 0 = none
	Empty int
	// Neighbour: while this writer is fed, a second, independent writer of the
	// same kind (own output, own rows) is fed by one more goroutine
	Neighbour bool
}

func (c *Case) Summary() string {
	return fmt.Sprintf("writer=%s goroutines=%d rows=%d shared-cols=%d mods=%v split=%d reuse-map=%v flush-during-adds=%v every-%d-th-row-without-values neighbouring-writer=%v", map[bool]string{true: "big", false: "in-memory"}[c.Big], c.Goroutines, c.Total, c.Cols, c.K, c.Split, c.ReuseMap, c.FlushDuring, c.Empty, c.Neighbour)
}

var colNames = []string{"a", "b", "c", "d"}

func (c *Case) row(i int) model.Row {
	if c.Empty > 0 && i%c.Empty == c.Empty-1 {
		return model.Row{}
	}
	r := model.Row{"tag": fmt.Sprintf("t%d", i)}
	for j := 0; j < c.Cols; j++ {
		if (i+j)%7 == 3 {
			continue // some rows lack some columns
		}
		r[colNames[j]] = fmt.Sprintf("v%d", i%c.K[j])
	}
	return r
}

type adder interface {
	AddRow(map[string]string) (uint32, error)
	Flush() error
}

func oracle(c *Case) (interleaved bool, err error) {
	dir := fix.CaseDir()
	defer os.RemoveAll(dir)
	out := fix.TempPath(dir, "out") + ".updog"
	var w adder
	if c.Big {
		tdb, err := bbolt.Open(out+".tmp", 0o600, nil)
		if err != nil {
			return false, fmt.Errorf("INFRA: %v", err)
		}
		defer tdb.Close()
		db, err := bbolt.Open(out, 0o644, nil)
		if err != nil {
			return false, fmt.Errorf("INFRA: %v", err)
		}
		defer db.Close()
		bw, err := updog.NewBigIndexWriter(db, tdb)
		if err != nil {
			return false, err
		}
		w = bw
		if cl, ok := any(bw).(interface{ Close() error }); ok {
			defer cl.Close() // releases the temp transaction if Flush was never reached
		}
	} else {
		w = updog.NewIndexWriter(out)
	}
	ids := make([]int64, c.Total)
	for i := range ids {
		ids[i] = -1
	}
	start := make(chan struct{})
	errs := make([]error, c.Goroutines)
	var active, maxActive, finished atomic.Int32
	var added atomic.Int64
	var snapStarted atomic.Bool
	var wg sync.WaitGroup
	for g := 0; g < c.Goroutines; g++ {
		wg.Add(1)
		go func(g int) {
			defer wg.Done()
			<-start
			a := active.Add(1)
			for {
				m := maxActive.Load()
				if a <= m || maxActive.CompareAndSwap(m, a) {
					break
				}
			}
			defer active.Add(-1)
			defer finished.Add(1)
			errs[g] = fix.Safe(func() error {
				reused := map[string]string{}
				for i := 0; i < c.Total; i++ {
					mine := i%c.Goroutines == g
					if c.Split == 1 {
						per := (c.Total + c.Goroutines - 1) / c.Goroutines
						mine = i/per == g
					}
					if !mine {
						continue
					}
					if c.FlushDuring && !c.Big && added.Load() >= int64(c.Total/2) && !snapStarted.Load() {
						// the second half of the rows is added while the
						// snapshot is being written, not before
						for spin := 0; spin < 4000000 && !snapStarted.Load(); spin++ {
							runtime.Gosched()
						}
					}
					row := c.row(i)
					if c.ReuseMap {
						for k := range reused {
							delete(reused, k)
						}
						for k, v := range row {
							reused[k] = v
						}
						row = reused
					}
					if len(row) == 0 && !c.ReuseMap && i%2 == 1 {
						row = nil
					}
					id, err := w.AddRow(row)
					if err != nil {
						return fmt.Errorf("AddRow(row %d): %v", i, err)
					}
					ids[i] = int64(id)
					added.Add(1)
				}
				return nil
			})
		}(g)
	}
	var snapErr error
	snapPath := out + ".snapshot"
	if c.FlushDuring && !c.Big {
		wg.Add(1)
		go func() {
			defer wg.Done()
			<-start
			for added.Load() < int64(c.Total/2) {
				runtime.Gosched()
			}
			snapErr = fix.Safe(func() error {
				db, err := bbolt.Open(snapPath, 0o644, nil)
				if err != nil {
					snapStarted.Store(true)
					return err
				}
				defer db.Close()
				snapStarted.Store(true)
				return w.(*updog.IndexWriter).WriteToBoltDatabase(db)
			})
		}()
	}
	var nbErr error
	if c.Neighbour {
		var nb adder
		nbOut := out + ".neighbour"
		if c.Big {
			ntdb, err := bbolt.Open(nbOut+".tmp", 0o600, nil)
			if err != nil {
				return false, fmt.Errorf("INFRA: %v", err)
			}
			defer ntdb.Close()
			ndb, err := bbolt.Open(nbOut, 0o644, nil)
			if err != nil {
				return false, fmt.Errorf("INFRA: %v", err)
			}
			defer ndb.Close()
			bw, err := updog.NewBigIndexWriter(ndb, ntdb)
			if err != nil {
				return false, err
			}
			nb = bw
			if cl, ok := any(bw).(interface{ Close() error }); ok {
				defer cl.Close()
			}
		} else {
			nb = updog.NewIndexWriter(nbOut)
		}
		wg.Add(1)
		go func() {
			defer wg.Done()
			<-start
			nbErr = fix.Safe(func() error {
				for i := 0; added.Load() < int64(c.Total) && i < 4*c.Total+1000; i++ {
					if _, err := nb.AddRow(map[string]string{"neighbour-column": fmt.Sprintf("n%d", i%97), "zz": fmt.Sprint(i)}); err != nil {
						return err
					}
					if finished.Load() >= int32(c.Goroutines) {
						return nil // all feeders are done (some may have given up)
					}
				}
				return nil
			})
		}()
	}
	close(start)
	wg.Wait()
	if nbErr != nil {
		return false, fmt.Errorf("the neighbouring writer: AddRow: %v", nbErr)
	}
	for _, e := range errs {
		if e != nil {
			return false, e
		}
	}
	if snapErr != nil {
		return false, fmt.Errorf("WriteToBoltDatabase during AddRow: %v", snapErr)
	}
	// ids must be exactly 0..n-1
	seen := make([]int, c.Total)
	for i, id := range ids {
		if id < 0 || id >= int64(c.Total) {
			return false, fmt.Errorf("row %d got id %d, outside 0..%d", i, id, c.Total-1)
		}
		seen[id]++
	}
	for id, n := range seen {
		if n != 1 {
			return false, fmt.Errorf("id %d was returned %d times", id, n)
		}
	}
	// did id ranges of different goroutines interleave?
	order := make([]int, c.Total) // order[id] = row
	for i, id := range ids {
		order[id] = i
	}
	owner := func(i int) int {
		if c.Split == 1 {
			return i / ((c.Total + c.Goroutines - 1) / c.Goroutines)
		}
		return i % c.Goroutines
	}
	switches := 0
	for id := 1; id < c.Total; id++ {
		if owner(order[id]) != owner(order[id-1]) {
			switches++
		}
	}
	interleaved = maxActive.Load() >= 2 && switches >= c.Goroutines
	if c.FlushDuring && !c.Big {
		// the snapshot taken while rows were being added: a consistent prefix
		sidx, _, err := fix.Open(snapPath, fix.OpenCfg{CacheCap: -1})
		if err != nil {
			return interleaved, fmt.Errorf("snapshot written during AddRow does not open: %v", err)
		}
		nsnap := 0
		if res, err := fix.Exec(sidx, fix.NewQuery(model.Not(model.Eq("tag", "\x01none")), nil)); err == nil {
			nsnap = int(res.Count)
		} else if fix.IsPanic(err) {
			fix.Safe(sidx.Close)
			return interleaved, err
		} // else: no row (hence no column) was in the snapshot
		if nsnap > c.Total {
			fix.Safe(sidx.Close)
			return interleaved, fmt.Errorf("snapshot counts %d rows, only %d were ever added", nsnap, c.Total)
		}
		prefix := make([]model.Row, nsnap)
		for id := 0; id < nsnap; id++ {
			prefix[id] = c.row(order[id])
		}
		perr := fix.ProbeAll(sidx, model.NewData(prefix), fix.ProbeOpts{Unique: "tag", MaxRows: 5000, MaxValues: 8000})
		fix.Safe(sidx.Close)
		if perr != nil && nsnap > 0 {
			return interleaved, fmt.Errorf("snapshot written while rows were added (%d rows) is not the index of rows 0..%d: %v", nsnap, nsnap-1, perr)
		}
	}
	if err := fix.Safe(w.Flush); err != nil {
		return interleaved, fmt.Errorf("Flush: %v", err)
	}
	// the model: the same rows inserted sequentially in id order
	rows := make([]model.Row, c.Total)
	for id, i := range order {
		rows[id] = c.row(i)
	}
	d := model.NewData(rows)
	cp, err := fix.CopyFile(dir, out)
	if err != nil {
		return interleaved, err
	}
	idx, _, err := fix.Open(cp, fix.OpenCfg{CacheCap: -1})
	if err != nil {
		return interleaved, fmt.Errorf("open flushed index: %v", err)
	}
	defer fix.Safe(idx.Close)
	var gbs [][]string
	if c.Total <= 400 {
		for j := 0; j < c.Cols; j++ {
			if d.HasColumn(colNames[j]) {
				gbs = append(gbs, []string{"tag", colNames[j]})
			}
		}
	}
	sort.Slice(gbs, func(i, j int) bool { return gbs[i][1] < gbs[j][1] })
	if err := fix.ProbeAll(idx, d, fix.ProbeOpts{Unique: "tag", MaxRows: 5000, MaxValues: 8000, ExtraGB: gbs}); err != nil {
		return interleaved, err
	}
	return interleaved, nil
}

func run(t interface{ Fatalf(string, ...any) }, c *Case) {
	defer fix.Track(prop, "addrow", c, c.Summary())()
	evid.Inflight(prop, "addrow", c, c.Summary())
	inter, err := oracle(c)
	evid.ClearInflight(prop, "addrow")
	if err != nil && len(err.Error()) > 6 && err.Error()[:6] == "INFRA:" {
		panic(err.Error())
	}
	cl := []string{fmt.Sprintf("big:%v", c.Big)}
	if c.Total > 1000 {
		cl = append(cl, "rows>1000")
	}
	if inter {
		cl = append(cl, "interleaved")
	}
	evid.Case(inter, c.Summary(), cl...)
	if err != nil {
		fix.Fail(t, prop, "addrow", c, c.Summary(), err)
	}
}

func drawCase(t *rapid.T) *Case {
	c := &Case{Big: rapid.Bool().Draw(t, "big")}
	c.Goroutines = rapid.IntRange(2, 32).Draw(t, "goroutines")
	c.Total = rapid.SampledFrom([]int{10, 64, 300, 999, 1000, 1001, 1500, 2001, 3000}).Draw(t, "total")
	if c.Total < c.Goroutines {
		c.Total = c.Goroutines
	}
	c.Cols = rapid.IntRange(1, 4).Draw(t, "cols")
	for j := 0; j < c.Cols; j++ {
		c.K = append(c.K, rapid.SampledFrom([]int{1, 2, 5, 50, 1100}).Draw(t, "k"))
	}
	c.Split = rapid.IntRange(0, 1).Draw(t, "split")
	c.ReuseMap = rapid.Bool().Draw(t, "reusemap")
	c.FlushDuring = !c.Big && rapid.IntRange(0, 2).Draw(t, "flushduring") == 0
	if rapid.IntRange(0, 2).Draw(t, "empties") == 0 {
		c.Empty = rapid.SampledFrom([]int{2, 3, 5, 17}).Draw(t, "empty")
	}
	c.Neighbour = rapid.IntRange(0, 2).Draw(t, "neighbour") == 0
	return c
}

func replay(cf *evid.CaseFile) error {
	if cf.Sub == "huge" {
		var c HugeCase
		if err := evid.Decode(cf.Gob, &c); err != nil {
			return err
		}
		return hugeOracle(&c)
	}
	var c Case
	if err := evid.Decode(cf.Gob, &c); err != nil {
		return err
	}
	var err error
	for i := 0; i < 10 && err == nil; i++ { // schedules vary
		_, err = oracle(&c)
	}
	return err
}

// HugeCase: one value carried by EVERY row of a very long input (more rows
// than any buffer a writer might fold its row ids through), fed by several
// goroutines; the rows are generated on the fly and the expected counts are
// arithmetic.
type HugeCase struct {
	Rows, Goroutines int
	Big              bool
}

func (c *HugeCase) Summary() string {
	return fmt.Sprintf("%d rows that all carry k=same (plus m=i%%3), fed by %d goroutines to the %s writer", c.Rows, c.Goroutines, map[bool]string{true: "big", false: "in-memory"}[c.Big])
}

func hugeOracle(c *HugeCase) error {
	dir := fix.CaseDir()
	defer os.RemoveAll(dir)
	out := fix.TempPath(dir, "huge") + ".updog"
	var w adder
	if c.Big {
		tdb, err := bbolt.Open(out+".tmp", 0o600, &bbolt.Options{NoSync: true})
		if err != nil {
			return fmt.Errorf("INFRA: %v", err)
		}
		defer tdb.Close()
		db, err := bbolt.Open(out, 0o644, nil)
		if err != nil {
			return fmt.Errorf("INFRA: %v", err)
		}
		defer db.Close()
		bw, err := updog.NewBigIndexWriter(db, tdb)
		if err != nil {
			return err
		}
		w = bw
		defer func() {
			if cl, ok := any(bw).(interface{ Close() error }); ok {
				cl.Close()
			}
		}()
	} else {
		w = updog.NewIndexWriter(out)
	}
	var next atomic.Int64
	var mcount [3]atomic.Int64
	errs := make([]error, c.Goroutines)
	var wg sync.WaitGroup
	for g := 0; g < c.Goroutines; g++ {
		wg.Add(1)
		go func(g int) {
			defer wg.Done()
			errs[g] = fix.Safe(func() error {
				for {
					i := next.Add(1) - 1
					if i >= int64(c.Rows) {
						return nil
					}
					if _, err := w.AddRow(map[string]string{"k": "same", "m": fmt.Sprint(i % 3)}); err != nil {
						return fmt.Errorf("AddRow %d: %v", i, err)
					}
					mcount[i%3].Add(1)
				}
			})
		}(g)
	}
	wg.Wait()
	for _, e := range errs {
		if e != nil {
			return e
		}
	}
	if err := fix.Safe(w.Flush); err != nil {
		return fmt.Errorf("Flush: %v", err)
	}
	cp, err := fix.CopyFile(dir, out)
	if err != nil {
		return err
	}
	idx, _, err := fix.Open(cp, fix.OpenCfg{CacheCap: -1})
	if err != nil {
		return fmt.Errorf("open flushed index: %v", err)
	}
	defer fix.Safe(idx.Close)
	same := model.Eq("k", "same")
	type probe struct {
		e    model.Expr
		want int64
	}
	probes := []probe{{same, int64(c.Rows)}, {model.Not(same), 0}, {model.Not(model.Eq("m", "none")), int64(c.Rows)}}
	for v := 0; v < 3; v++ {
		mv := model.Eq("m", fmt.Sprint(v))
		probes = append(probes, probe{mv, mcount[v].Load()}, probe{model.And(same, mv), mcount[v].Load()}, probe{model.And(model.Not(same), mv), 0})
	}
	for _, p := range probes {
		res, err := fix.Exec(idx, fix.NewQuery(p.e, nil))
		if err != nil {
			return fmt.Errorf("%s: %v", p.e, err)
		}
		if int64(res.Count) != p.want {
			return fmt.Errorf("%d rows were added, every one with k=same and m=i%%3: count(%s) is %d, want %d", c.Rows, p.e, res.Count, p.want)
		}
	}
	res, err := fix.Exec(idx, fix.NewQuery(same, []string{"m"}))
	if err != nil {
		return err
	}
	got := fix.FromResult(res)
	if len(got.Groups) != 3 {
		return fmt.Errorf("count(k=same) grouped by m: %d groups, want 3", len(got.Groups))
	}
	for _, g := range got.Groups {
		if len(g.Vals) != 1 || len(g.Vals[0]) != 1 || g.Vals[0][0] < '0' || g.Vals[0][0] > '2' || int64(g.Count) != mcount[g.Vals[0][0]-'0'].Load() {
			return fmt.Errorf("count(k=same) grouped by m: group %v has count %d", g.Vals, g.Count)
		}
	}
	return nil
}

func runHuge(t *testing.T, c *HugeCase) {
	evid.Inflight(prop, "huge", c, c.Summary())
	err := hugeOracle(c)
	evid.ClearInflight(prop, "huge")
	if err != nil && strings.HasPrefix(err.Error(), "INFRA:") {
		panic(err.Error())
	}
	evid.Note("rows_added_in_huge_single_value_inputs", int64(c.Rows))
	evid.Case(true, c.Summary(), "huge-single-value")
	if err != nil {
		fix.Fail(t, prop, "huge", c, c.Summary(), err)
	}
}

// overlapFlush: fixed cases in which several thousand AddRow calls overlap the
// writing of a snapshot that holds more than 1000 distinct values.
func overlapFlush(t *testing.T) {
	for _, g := range []int{2, 8, 24} {
		for _, reuse := range []bool{false, true} {
			run(t, &Case{Goroutines: g, Total: 6000, Cols: 2, K: []int{1100, 5}, Split: g % 2, ReuseMap: reuse, FlushDuring: true})
		}
	}
}

func TestQuick(t *testing.T) {
	overlapFlush(t)
	runHuge(t, &HugeCase{Rows: 1<<21 + 70001, Goroutines: 8, Big: true})
	fix.Pinned(t, prop, replay)
	fix.Check(t, "addrow", 60, func(rt *rapid.T) { run(rt, drawCase(rt)) })
}

func TestThorough(t *testing.T) {
	overlapFlush(t)
	switch shard, _ := evid.Shard(); shard {
	case 0:
		runHuge(t, &HugeCase{Rows: 1<<21 + 70001, Goroutines: 8, Big: true})
	case 1:
		runHuge(t, &HugeCase{Rows: 1<<22 + 3, Goroutines: 3, Big: true})
	case 2:
		runHuge(t, &HugeCase{Rows: 1<<22 + 3, Goroutines: 6, Big: false})
	}
	if shard, _ := evid.Shard(); shard == 0 {
		fix.Pinned(t, prop, replay)
	}
	fix.Check(t, "addrow", 400, func(rt *rapid.T) { run(rt, drawCase(rt)) })
}

func TestReplay(t *testing.T) {
	cf := fix.ReplayFile(t)
	if err := replay(cf); err != nil {
		t.Fatalf("replay of %s/%s fails: %v", cf.Property, cf.Sub, err)
	}
}
