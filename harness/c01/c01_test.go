// C01 — total count equals the number of rows satisfying the expression.
package c01

import (
	"fmt"
	"os"
	"strings"
	"testing"

	"github.com/akrennmair/updog"
	"github.com/akrennmair/updog/verifharness/evid"
	"github.com/akrennmair/updog/verifharness/fix"
	"github.com/akrennmair/updog/verifharness/gen"
	"github.com/akrennmair/updog/verifharness/model"
	"pgregory.net/rapid"
)

const prop = "C01"

func TestMain(m *testing.M) { fix.Main(m) }

// Case is a dataset plus the expressions to evaluate on it in all six
// writer × open configurations.
type Case struct {
	Data  gen.DataSpec
	Exprs []model.Expr
	// Probes adds the systematic probe set derived from the data.
	Probes bool
}

func (c *Case) Summary() string {
	var b strings.Builder
	b.WriteString(c.Data.Summary())
	fmt.Fprintf(&b, " probes=%v exprs[%d]:", c.Probes, len(c.Exprs))
	for i, e := range c.Exprs {
		if i >= 8 {
			b.WriteString(" …")
			break
		}
		b.WriteString(" " + e.String() + ";")
	}
	return b.String()
}

var openCfgs = []fix.OpenCfg{{Preload: false, CacheCap: -1}, {Preload: true, CacheCap: -1}}

// probeSet derives the systematic expressions of a dataset.
func probeSet(d *model.Data) []model.Expr {
	var out []model.Expr
	budget := 3000
	for _, c := range d.Columns() {
		vals := d.Values(c)
		step := 1
		if len(vals) > budget/2 {
			step = len(vals)/(budget/2) + 1
		}
		for i := 0; i < len(vals); i += step {
			out = append(out, model.Eq(c, vals[i]))
		}
		if len(vals) > 0 {
			out = append(out, model.Eq(c, vals[len(vals)-1]))
			out = append(out, model.Not(model.Eq(c, vals[0])))
		}
		out = append(out, model.Eq(c, "\x01absent-value\x02"), model.Not(model.Eq(c, "\x01absent-value\x02")))
	}
	u := model.Eq("no_such_column", "x")
	out = append(out, u, model.Not(u), model.And(u), model.Or(u))
	if cols := d.Columns(); len(cols) > 0 {
		k := model.Eq(cols[0], d.Values(cols[0])[0])
		out = append(out, model.And(k, u), model.Or(k, u), model.Or(u, k), model.Not(model.And(k, model.Not(u))))
	}
	return out
}

// oracle builds the dataset with every writer, opens it on demand and
// preloaded, and compares every count with the model.
func oracle(c *Case) error {
	rows := c.Data.Rows()
	d := model.NewData(rows)
	exprs := c.Exprs
	if c.Probes {
		exprs = append(append([]model.Expr(nil), exprs...), probeSet(d)...)
	}
	dir := fix.CaseDir()
	defer os.RemoveAll(dir)
	// model answers once
	type want struct {
		reject bool
		n      uint64
	}
	wants := make([]want, len(exprs))
	for i, e := range exprs {
		if d.Rejects(e, nil) {
			wants[i].reject = true
		} else {
			wants[i].n = d.Count(e)
		}
	}
	for w := 0; w < fix.NWriters; w++ {
		path, _, err := fix.Build(dir, rows, w)
		if err != nil {
			return fmt.Errorf("writer %s: build failed: %v", fix.WriterName[w], err)
		}
		for _, oc := range openCfgs {
			idx, _, err := fix.Open(path, oc)
			if err != nil {
				return fmt.Errorf("writer %s open %s: %v", fix.WriterName[w], oc, err)
			}
			err = evalAll(idx, exprs, func(i int, res *updog.Result, err error) error {
				if fix.IsPanic(err) {
					return err
				}
				if wants[i].reject {
					if err == nil {
						return fmt.Errorf("test of a column that occurs in no row returned no error (count %d)", res.Count)
					}
					if res != nil {
						return fmt.Errorf("error together with a non-nil result")
					}
					return nil
				}
				if err != nil {
					return fmt.Errorf("unexpected error: %v", err)
				}
				if res.Count != wants[i].n {
					return fmt.Errorf("count got %d want %d", res.Count, wants[i].n)
				}
				if len(res.Groups) != 0 {
					return fmt.Errorf("%d groups without group-by", len(res.Groups))
				}
				return nil
			})
			cerr := fix.Safe(idx.Close)
			if err != nil {
				return fmt.Errorf("writer %s open %s: %v", fix.WriterName[w], oc, err)
			}
			if cerr != nil {
				return fmt.Errorf("writer %s open %s: close: %v", fix.WriterName[w], oc, cerr)
			}
		}
		os.Remove(path)
	}
	return nil
}

func evalAll(idx *updog.Index, exprs []model.Expr, chk func(i int, res *updog.Result, err error) error) error {
	for i, e := range exprs {
		res, err := fix.Exec(idx, fix.NewQuery(e, nil))
		if cerr := chk(i, res, err); cerr != nil {
			return fmt.Errorf("expr %s: %v", e.String(), cerr)
		}
	}
	return nil
}

func classify(c *Case) (bool, []string) {
	rows := c.Data.Rows()
	n := len(rows)
	cl := []string{sizeBucket(n)}
	if c.Data.Recipe != nil {
		cl = append(cl, "mode:recipe")
		for _, col := range c.Data.Recipe.Cols {
			cl = append(cl, fmt.Sprintf("dist:%d", col.Kind))
		}
	} else {
		cl = append(cl, "mode:explicit")
	}
	for _, b := range []int{1, 1000, 4096, 65536} {
		if n >= b-1 && n <= b+1 {
			cl = append(cl, fmt.Sprintf("boundary:%d", b))
		}
	}
	missing, empty := false, false
	d := model.NewData(rows)
	ncols := len(d.Columns())
	for _, r := range rows {
		if len(r) == 0 {
			empty = true
		}
		if len(r) < ncols {
			missing = true
		}
	}
	if missing {
		cl = append(cl, "has-missing-column")
	}
	if empty {
		cl = append(cl, "has-empty-row")
	}
	if n > 0 && len(rows[n-1]) == 0 {
		cl = append(cl, "trailing-empty-row")
	}
	if d.DistinctValues() > 1000 {
		cl = append(cl, "distinct>1000")
	}
	hasOp, hasNot, unk := false, false, false
	for _, e := range c.Exprs {
		if e.HasOperator() {
			hasOp = true
		}
		if e.HasNot() {
			hasNot = true
		}
		if d.Rejects(e, nil) {
			unk = true
		}
	}
	if hasNot {
		cl = append(cl, "has-not")
	}
	if unk {
		cl = append(cl, "has-unknown-column")
	}
	nt := n >= 1 && hasOp && (missing || n >= 1000 || d.DistinctValues() > 1000 || hasNot)
	return nt, cl
}

func sizeBucket(n int) string {
	switch {
	case n == 0:
		return "rows:0"
	case n < 10:
		return "rows:1-9"
	case n < 100:
		return "rows:10-99"
	case n < 1000:
		return "rows:100-999"
	case n < 4096:
		return "rows:1000-4095"
	case n < 65536:
		return "rows:4096-65535"
	default:
		return "rows:65536+"
	}
}

func run(t interface{ Fatalf(string, ...any) }, c *Case) {
	defer fix.Track(prop, "count", c, c.Summary())()
	nt, cl := classify(c)
	evid.Case(nt, c.Summary(), cl...)
	if err := oracle(c); err != nil {
		fix.Fail(t, prop, "count", c, c.Summary(), err)
	}
}

func drawCase(t *rapid.T, o gen.DataOpts, nexpr int) *Case {
	ds := gen.Dataset(t, o)
	d := model.NewData(ds.Rows())
	pool := gen.NewLeafPool(d).AllowEmptyName()
	c := &Case{Data: *ds, Probes: true}
	k := rapid.IntRange(1, nexpr).Draw(t, "nexpr")
	for i := 0; i < k; i++ {
		c.Exprs = append(c.Exprs, pool.Expr(t, gen.UnknownSometimes(t)))
	}
	if rapid.IntRange(0, 2).Draw(t, "errprec") == 0 {
		c.Exprs = append(c.Exprs, pool.ErrorPrecedence(t)...)
	}
	return c
}

// prelude: one dataset per boundary bucket, deterministic.
func prelude(t *testing.T, sizes []int) {
	for wi, n := range sizes {
		spec := gen.DataSpec{Recipe: &gen.Recipe{N: n, Cols: []gen.ColSpec{
			{Name: "a", Kind: gen.KMod, K: 3, Prefix: "v"},
			{Name: "b", Kind: gen.KDiv, K: 1000, Pres: gen.PModNot, P: 3},
			{Name: "c", Kind: gen.KSparse, K: 1001, R: 5, Pres: gen.PNotLast, P: 2},
			{Name: "d", Kind: gen.KMod, K: 1500, Prefix: "\xff"},
			{Name: "len", Kind: gen.KLen, K: gen.LenWindows[wi%len(gen.LenWindows)], R: 40},
			// values that hold for exactly n, 1000, 4096 and 65536 rows (buffer,
			// batch and container boundaries of the writers)
			{Name: "k", Kind: gen.KConst, Prefix: "all"},
			{Name: "b1k", Kind: gen.KDiv, K: 1000},
			{Name: "b4k", Kind: gen.KDiv, K: 4096},
			{Name: "b64k", Kind: gen.KDiv, K: 65536},
			{Name: "p2", Kind: gen.KPow2, Prefix: "blk"}, // values holding for exactly 1,2,4,...,2^k rows
			{Name: "b3k", Kind: gen.KDiv, K: 3000},
		}}}
		a0, b0, c0 := model.Eq("a", "v0"), model.Eq("b", "0"), model.Eq("c", "hit")
		c := &Case{Data: spec, Probes: true, Exprs: []model.Expr{
			model.Not(a0), model.And(model.Not(b0), model.Not(c0)), model.Or(a0, model.Not(model.Or(b0, c0))),
			model.Not(model.Not(model.Not(model.Eq("d", "\xff7")))), model.And(a0, a0, model.Not(model.Eq("b", "nope"))),
		}}
		run(t, c)
	}
}

func replay(cf *evid.CaseFile) error {
	var c Case
	if err := evid.Decode(cf.Gob, &c); err != nil {
		return fmt.Errorf("undecodable case: %v", err)
	}
	return oracle(&c)
}

// bigBitmaps: few values on very many rows (every stored bitmap is tens of
// KiB, several of them written in one batch).
func bigBitmaps(t *testing.T, n int) {
	spec := gen.DataSpec{Recipe: &gen.Recipe{N: n, Cols: []gen.ColSpec{
		{Name: "a", Kind: gen.KMod, K: 3, Prefix: "v"}, {Name: "b", Kind: gen.KTwo, K: 5}, {Name: "c", Kind: gen.KMod, K: 7, Prefix: "w"}}}}
	a0, a1 := model.Eq("a", "v0"), model.Eq("a", "v1")
	exprs := []model.Expr{model.And(a0, a1), model.Or(a0, a1), model.Not(a0), model.And(model.Not(a1), model.Eq("b", "3"))}
	for i := 0; i < 7; i++ {
		for j := i + 1; j < 7; j++ {
			// pairwise disjoint values: any two of them sharing stored bytes shows here
			exprs = append(exprs, model.And(model.Eq("c", fmt.Sprintf("w%d", i)), model.Eq("c", fmt.Sprintf("w%d", j))))
		}
	}
	run(t, &Case{Data: spec, Probes: true, Exprs: exprs})
}

func TestQuick(t *testing.T) {
	if shard, _ := evid.Shard(); shard == 1 {
		bigBitmaps(t, 200000)
	}
	if shard, _ := evid.Shard(); shard == 0 {
		fix.Pinned(t, prop, replay)
		prelude(t, []int{0, 1, 2, 999, 1000, 1001, 4095, 4096, 4097, 65535, 65536, 65537})
	}
	fix.Check(t, "explicit", 150, func(rt *rapid.T) {
		run(rt, drawCase(rt, gen.DataOpts{MaxRows: 40}, 20))
	})
	fix.Check(t, "recipe", 12, func(rt *rapid.T) {
		run(rt, drawCase(rt, gen.DataOpts{MaxRecipeN: 20000, RecipeProb: 100}, 12))
	})
}

func TestThorough(t *testing.T) {
	shard, _ := evid.Shard()
	if shard == 1 {
		bigBitmaps(t, 200000)
		bigBitmaps(t, 300001)
	}
	if shard == 0 {
		fix.Pinned(t, prop, replay)
		prelude(t, []int{0, 1, 2, 999, 1000, 1001, 4095, 4096, 4097, 65535, 65536, 65537, 131071, 131072, 131073})
	}
	fix.Check(t, "explicit", 400, func(rt *rapid.T) {
		run(rt, drawCase(rt, gen.DataOpts{MaxRows: 60}, 40))
	})
	fix.Check(t, "recipe", 40, func(rt *rapid.T) {
		run(rt, drawCase(rt, gen.DataOpts{MaxRecipeN: 150000, RecipeProb: 100, Unique: shard%4 == 0}, 20))
	})
}

func TestReplay(t *testing.T) {
	cf := fix.ReplayFile(t)
	if err := replay(cf); err != nil {
		t.Fatalf("replay of %s/%s fails: %v", cf.Property, cf.Sub, err)
	}
}

// TestMakePinned (re)writes the hand-built pinned cases of this property into
// $VERIF_MAKE_PINNED (maintenance helper, not part of any tier).
func TestMakePinned(t *testing.T) {
	dir := os.Getenv("VERIF_MAKE_PINNED")
	if dir == "" {
		t.Skip("VERIF_MAKE_PINNED not set")
	}
	c := &Case{
		Data:  gen.DataSpec{Explicit: []model.Row{{"a\x00b": "c"}, {"a": "b\x00c"}, {"a": "z"}}},
		Exprs: []model.Expr{model.Eq("a", "b\x00c"), model.Eq("a\x00b", "c"), model.Not(model.Eq("a", "b\x00c"))},
	}
	err := oracle(c)
	if err == nil {
		t.Fatalf("the NUL-column case does not fail any more: remove the known finding")
	}
	os.Setenv("VERIF_REPLAY_DIR", dir)
	p := evid.WriteCase(prop, "count", c, c.Summary(), err)
	t.Logf("written %s: %v", p, err)
}
