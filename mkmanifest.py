#!/usr/bin/env python3
"""Regenerates MANIFEST.json from checks_meta.json (single source for rule/level texts)."""
import json, os
V = os.path.dirname(os.path.abspath(__file__))
meta = json.load(open(os.path.join(V, 'checks_meta.json')))
props = [json.loads(l)['id'] for l in open(os.path.join(V, 'properties.jsonl'))]
GO = "GOFLAGS=-mod=mod GOPROXY=off GOSUMDB=off GOTOOLCHAIN=local"
checks, na = [], []
for p in props:
    m = meta.get(p)
    if not m or not os.path.isdir(os.path.join(V, 'harness', p.lower())) or m.get('not_applicable'):
        na.append({"property_id": p, "reason": (m or {}).get('not_applicable', 'check not built yet (work in progress); nothing is claimed for this property')})
        continue
    checks.append({
        "property_id": p,
        "quick_cmd": "./check %s quick" % p,
        "thorough_cmd": "./check %s thorough" % p,
        "evidence_file": "/verif/evidence/%s.json" % p,
        "replay_cmd_template": "./check --replay {path}",
        "engine": "rapid-harness",
        "level_claimed": {"category": m.get('level', 'exploration'), "text": m['level_text'], "design_ref": "DESIGN.md section 4, " + p},
        "level_note": m['level_note'],
        "technique": m['technique'],
    })
hooks = json.load(open(os.path.join(V, 'hooks.json'))) if os.path.exists(os.path.join(V, 'hooks.json')) else {"source_commits": []}
man = {
    "version": 1,
    "setup_cmd": "cd /verif/harness && %s go build ./... && %s go test -tags verif -count=1 -run '^$' ./... >/dev/null" % (GO, GO),
    "hooks": {
        "guard": "verif",
        "enable": "go build tag 'verif' (go test -c -tags verif); every check compiles /repo's working tree through the harness module's replace directive",
        "baseline_off_cmd": "cd /repo && GOFLAGS=-mod=mod GOPROXY=off GOSUMDB=off go test -json -vet=off -count=1 -timeout 25m ./...",
        "source_commits": hooks.get("source_commits", []),
        "add_only": True,
    },
    "engines": [{
        "name": "rapid-harness", "path": "harness", "serves_properties": [c['property_id'] for c in checks],
        "kind_free_text": "Go module (nested path, replace => /repo) with pgregory.net/rapid v1.3.0 property tests, one package per property; reference model, generators, fixtures; Go native fuzz targets in the thorough tier; python3 driver ./check (build, shard, merge evidence, known-findings matching, replay)",
    }],
    "checks": checks,
    "not_applicable": na,
    "notes": "All checks are generated-input search against an explicit oracle (property-based testing with rapid, small-scope exhaustive enumeration, Go native fuzzing in the thorough tier, harness-owned fault/schedule injection). See DESIGN.md. known_findings.json lists open findings and fixed: entries.",
}
json.dump(man, open(os.path.join(V, 'MANIFEST.json'), 'w'), indent=1)
print("checks:", [c['property_id'] for c in checks], "n/a:", [n['property_id'] for n in na])
