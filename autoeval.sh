#!/bin/bash
# autoeval.sh <seed-root> <prop> <m>   e.g. autoeval.sh /tmp/seed2 C07 m1
# Reads <seed-root>/<prop>/out/<m>/{patch.diff,demo_test.go.txt,eval.env}; evaluates in a scratch
# worktree (seedeval.sh); first the property's own check, and the neighbouring checks if that misses.
root=$1; prop=$2; m=$3
d=$root/$prop/out/$m
declare -A NB=( [C01]="C02 C03 C05" [C02]="C03 C01" [C03]="C04 C02" [C04]="C03 C07" [C05]="C01 C06 C18" [C06]="C15 C05" [C07]="C04 C03"
 [C08]="C02 C03" [C09]="C10 C11" [C10]="C09 C12" [C11]="C12 C10" [C12]="C11 C13 C17" [C13]="C14 C12 C04" [C14]="C13 C04" [C15]="C06 C16 C17"
 [C16]="C19 C15 C05" [C17]="C12 C16 C15" [C18]="C05 C04" [C19]="C16 C05 C06" )
[ -f $d/patch.diff ] || { echo "$prop $m: NO PATCH"; exit 0; }
DEMO_DST=seeddemo_test.go; DEMO_RUN=.; DEMO_TAGS=; DEMO_RACE=0
[ -f $d/eval.env ] && source <(grep -E '^(DEMO_DST|DEMO_RUN|DEMO_TAGS|DEMO_RACE)=' $d/eval.env)
export DEMO_RUN DEMO_TAGS; [ "$DEMO_RACE" = 1 ] && export DEMO_RACE=1 || unset DEMO_RACE
demo=$d/demo_test.go.txt; [ -f $demo ] || demo=$(ls $d/*_test.go* 2>/dev/null | head -1)
cp $demo /tmp/.autoeval_demo_$$_test.go
mkdir -p $root/results
log=$root/results/$prop-$m.log
cd ${VERIF_ROOT:-/verif} && ./seedeval.sh $d/patch.diff $prop quick /tmp/.autoeval_demo_$$_test.go $DEMO_DST > $log 2>&1
rm -f /tmp/.autoeval_demo_$$_test.go
applies=ok; grep -q PATCH-DOES-NOT-APPLY $log && applies=NO
tests=$(awk '/existing tests WITH patch/{f=1;next} /^== /{f=0} f' $log | grep -c "^FAIL")
demo_without=$(awk '/demo WITHOUT patch/{f=1;next} /^== /{f=0} f' $log | grep -c -- "^--- FAIL\|^FAIL")
demo_with=$(awk '/demo WITH patch/{f=1;next} /^== /{f=0} f' $log | grep -c -- "^--- FAIL\|^FAIL\|panic")
own=missed; grep -q "^VIOLATION" $log && own=CAUGHT; grep -q "INCONCLUSIVE\|BUILD-FAILED" $log && [ $own = missed ] && own=INCONCLUSIVE
nb=""
if [ $own != CAUGHT ] && [ $applies = ok ]; then
  for c in ${NB[$prop]}; do
    ./seedeval.sh $d/patch.diff $c quick > $log.$c 2>&1
    if grep -q "^VIOLATION" $log.$c; then nb="$nb $c:CAUGHT"; else nb="$nb $c:missed"; fi
  done
fi
echo "$prop $m: patch=$applies existing-tests-failing=$tests demo-fails-without=$demo_without demo-fails-with=$demo_with own-check=$own neighbours:[$nb ]"
