#!/bin/bash
# mutate.sh <check-id> <tier> <file> <python-replace-old> <python-replace-new>
# applies a textual mutation to /repo (uncommitted), runs the check, reverts. For sensitivity testing only.
id=$1; tier=$2; file=$3; old=$4; new=$5
cd /repo || exit 9
if [ -n "$(git status --porcelain)" ]; then echo "repo dirty"; exit 9; fi
python3 - "$file" "$old" "$new" <<'PY' 2>/dev/null
import sys
p,old,new=sys.argv[1:4]
s=open(p).read()
if old not in s:
    print("MUTATION-NOT-APPLICABLE"); sys.exit(3)
open(p,'w').write(s.replace(old,new,1))
PY
rc=$?
if [ $rc -ne 0 ]; then git checkout -- .; echo "mutation did not apply"; exit 9; fi
if ! GOFLAGS=-mod=mod GOPROXY=off go build ./... 2>&1 | tail -3; then :; fi
cd /verif && VERIF_NOEVID=1 ./check $id $tier 2>&1 | grep -E "VIOLATION|INCONCLUSIVE|BUILD-FAILED|^\[|^---" | cut -c1-400
git -C /repo checkout -- .
git -C /verif checkout -- evidence 2>/dev/null
