#!/bin/bash
# seedeval.sh <patch.diff> <check-id>[,<check-id>...] [tier] [demo-src demo-dst-relative]
# Evaluates a seeded change WITHOUT touching /repo: fresh scratch worktree of /repo HEAD,
# patch applied there, existing tests run there, optional demonstration run with and without
# the patch, then the named checks are run against the worktree (VERIF_REPO_OVERRIDE).
# The worktree and its build output are removed afterwards.
patch=$(readlink -f "$1"); ids=$2; tier=${3:-quick}; demosrc=$4; demodst=$5
export GOFLAGS=-mod=mod GOPROXY=off GOSUMDB=off GOTOOLCHAIN=local
wt=$(mktemp -d /tmp/seedeval-XXXXXX); rmdir $wt
git -C /repo worktree add -q --detach $wt HEAD || exit 9
cleanup() { git -C /repo worktree remove --force $wt 2>/dev/null; rm -rf $wt; }
trap cleanup EXIT
cd $wt
if [ -n "$demosrc" ]; then
  mkdir -p $(dirname $demodst); cp "$demosrc" $demodst
  echo "== demo WITHOUT patch:"; (cd $(dirname $demodst) && go test ${DEMO_RACE:+-race} -tags "$DEMO_TAGS" -count=1 -run "${DEMO_RUN:-.}" -v . 2>&1 | grep -E "^(--- |ok|FAIL|PASS)" | head -8)
fi
git apply "$patch" || { echo "PATCH-DOES-NOT-APPLY"; exit 9; }
echo "== build/vet:"; go build ./... 2>&1 | tail -3; go vet ./... 2>&1 | grep -v "^#" | tail -3
if [ -n "$demosrc" ]; then mv $demodst /tmp/.demo_$$; fi
echo "== existing tests WITH patch:"; go test -count=1 ./... 2>&1 | grep -v "no test files" | tail -4
if [ -n "$demosrc" ]; then
  mv /tmp/.demo_$$ $demodst
  echo "== demo WITH patch:"; (cd $(dirname $demodst) && go test ${DEMO_RACE:+-race} -tags "$DEMO_TAGS" -count=1 -run "${DEMO_RUN:-.}" -v . 2>&1 | grep -E "^(--- |ok|FAIL|PASS)" | head -8)
  rm -f $demodst
fi
cd ${VERIF_ROOT:-/verif}
for id in ${ids//,/ }; do
  echo "== check $id $tier against patched worktree:"
  VERIF_REPO_OVERRIDE=$wt VERIF_NOEVID=1 ./check $id $tier 2>&1 | grep -E "VIOLATION|INCONCLUSIVE|BUILD-FAILED|^\[|^---" | cut -c1-500
done
rm -f ${VERIF_ROOT:-/verif}/replays/*-s[0-9]*.json
