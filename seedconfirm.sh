#!/bin/bash
# seedconfirm.sh [seed-id ...]  - the official protocol for every stored seeded change:
#   git -C /repo apply seeded/<id>/patch.diff ; run the detecting check(s) ; git -C /repo checkout -- .
# Result is written to seeded/<id>/confirm.txt and summarised on stdout. /repo must be clean.
cd /verif
if [ -n "$(git -C /repo status --porcelain)" ]; then echo "/repo is dirty"; exit 9; fi
ids="$@"; [ -z "$ids" ] && ids=$(ls seeded)
for sid in $ids; do
  d=seeded/$sid
  prop=$(python3 -c "import json;print(json.load(open('$d/meta.json'))['breaks_property'])" 2>/dev/null)
  checks=$(python3 -c "
import json,re
m=json.load(open('$d/meta.json'))
ids=[]
for s in m['detected_by']:
    ids+=re.findall(r'C\d\d', s)
print(' '.join(dict.fromkeys(ids)) or m['breaks_property'])" 2>/dev/null)
  git -C /repo apply /verif/$d/patch.diff || { echo "$sid: PATCH DOES NOT APPLY"; continue; }
  res=""
  for c in $checks; do
    out=$(VERIF_NOEVID=1 ./check $c quick 2>&1)
    rc=$?
    v=$(echo "$out" | grep -c "^VIOLATION")
    res="$res $c:exit=$rc,violations=$v"
    echo "$out" | grep -E "^---|^VIOLATION|^\[|INCONCLUSIVE" | cut -c1-400 > $d/confirm-$c.txt
  done
  git -C /repo checkout -- .
  git -C /repo clean -fdq 2>/dev/null
  echo "$sid ->$res" | tee $d/confirm.txt
  rm -f replays/C*-*.json
done
