#!/usr/bin/env python3
"""keepseed.py <agent-out-dir> <seed-id> <property> <caught-by (comma list or 'none')> <needs> [<note>]
Stores a confirmed seeded change under /verif/seeded/<seed-id>/ (patch.diff, demonstration, agent README, meta.json)."""
import json, os, shutil, sys
src, sid, prop, caught, needs = sys.argv[1:6]
note = sys.argv[6] if len(sys.argv) > 6 else ""
dst = os.path.join('/verif/seeded', sid)
os.makedirs(dst, exist_ok=True)
for f in os.listdir(src):
    p = os.path.join(src, f)
    if os.path.isdir(p):
        shutil.copytree(p, os.path.join(dst, f), dirs_exist_ok=True)
    else:
        # demo files must not be picked up by `go test ./...` anywhere: keep a .txt suffix
        name = f + '.txt' if f.endswith('_test.go') or f.endswith('.go') else f
        shutil.copy(p, os.path.join(dst, name))
meta = {
    "seed_id": sid,
    "breaks_property": prop,
    "needs_to_manifest": needs,
    "origin": "written by a fresh sub-agent that was given only the property text and a scratch worktree of /repo (nothing from /verif)",
    "confirmed_by_me": "seedeval.sh: fresh scratch worktree of /repo HEAD; patch applies; go build/vet clean; the 61 existing tests pass with the patch; the demonstration passes without and fails with the patch",
    "what_i_ran": "./seedeval.sh seeded/%s/patch.diff %s quick <demo> <dst>  (checks run against the patched worktree via VERIF_REPO_OVERRIDE); for final confirmation: git -C /repo apply seeded/%s/patch.diff && ./check <id> quick; git -C /repo checkout -- ." % (sid, prop, sid),
    "detected_by": [] if caught == 'none' else caught.split(','),
    "note": note,
}
json.dump(meta, open(os.path.join(dst, 'meta.json'), 'w'), indent=1)
print(dst)
