#!/usr/bin/env python3
"""pin.py <replay.json> <name> <pass|known> <note>  -> corpus/<prop>/<name>.json"""
import json, sys, os
src, name, expect, note = sys.argv[1:5]
cf = json.load(open(src))
cf['expect'] = expect
cf['note'] = note
d = os.path.join(os.path.dirname(os.path.abspath(__file__)), 'corpus', cf['property'])
os.makedirs(d, exist_ok=True)
json.dump(cf, open(os.path.join(d, name + '.json'), 'w'), indent=1)
print(os.path.join(d, name + '.json'))
